package props

import (
	"fmt"
	"sync"
	"testing"
	"time"

	"pgregory.net/rapid"

	"verif/sim/hx"
	"verif/sim/memnet"
	"verif/sim/wire"
	"verif/sim/world"
)

// Free-running sessions: each peer's remote speaker is a goroutine inside the
// bubble that reacts to what corebgp writes (at machine speed, in virtual
// time) through a list of sessions; the test's root goroutine only sleeps.
// Because synctest.Wait is not called between the steps there are no
// harness-induced happens-before edges, so the race detector sees accesses of
// different sessions of one FSM object as unordered when corebgp does not
// order them itself. The same runs are judged by the C01 history invariants
// and the C04 stream invariants.

type frSession struct {
	Dir        string `json:"dir"` // in | out
	RemoteHold uint16 `json:"remote_hold"`
	Updates    int    `json:"updates"`    // UPDATEs the remote sends once Established
	Writes     int    `json:"writes"`     // WriteUpdate calls made by a local goroutine once Established
	DwellMs    int    `json:"dwell_ms"`   // virtual time the session stays up before it is ended
	End        string `json:"end"`        // fin rst cease garbage silent
	GapMs      int    `json:"gap_ms"`     // pause before the next session of this peer
	UptoState  string `json:"upto_state"` // opensent openconfirm established: how far the handshake goes
}

type frPeer struct {
	Hold     int         `json:"hold"`
	Passive  bool        `json:"passive"`
	WriteEst bool        `json:"write_est"` // the plugin writes an UPDATE from inside OnEstablished
	Sessions []frSession `json:"sessions"`
}

type frCase struct {
	Peers  []frPeer `json:"peers"`
	Delays []int64  `json:"delays,omitempty"`
}

func runFreeRunning(t *testing.T, c frCase) *trace {
	tr := &trace{ConnPeer: map[int]string{}, RemoteOpenSent: map[int]bool{}}
	var mu sync.Mutex
	tr.Outcome = world.Run(t, func() {
		w, err := world.New("10.0.0.1", c.Delays)
		if err != nil {
			tr.Dump = "setup: " + err.Error()
			return
		}
		specs := make([]world.PeerSpec, len(c.Peers))
		for i, p := range c.Peers {
			specs[i] = world.PeerSpec{Remote: fmt.Sprintf("10.0.0.%d", 2+i), LocalAS: 64512, RemoteAS: uint32(64600 + i), Hold: p.Hold, Passive: p.Passive, IdleHoldMs: 200, ConnRetryMs: 1000}
			if p.WriteEst {
				specs[i].Plugin.WriteInEst = []hx.Hex{tagBody(i, 9000, -1, 0, 24)}
			}
			w.Net.SetPlans(specs[i].RemoteAddr(), memnet.DialPlan{Kind: memnet.Refuse})
			if err := w.AddPeer(specs[i]); err != nil {
				tr.Dump = "setup AddPeer: " + err.Error()
				return
			}
		}
		w.Serve()
		var wg sync.WaitGroup
		for i := range c.Peers {
			wg.Add(1)
			go func(pi int) {
				defer wg.Done()
				sp := specs[pi]
				for si, s := range c.Peers[pi].Sessions {
					var cn *memnet.Conn
					if s.Dir == "out" && !sp.Passive {
						n0 := len(w.Net.Dials())
						w.Net.SetPlans(sp.RemoteAddr(), memnet.DialPlan{Kind: memnet.Accept})
						// wait for an accepted attempt to this remote
						deadline := 10 * time.Second
						for k := 0; k < 50 && cn == nil; k++ {
							if !w.Net.WaitDials(n0+1+k, deadline) {
								break
							}
							for _, d := range w.Net.Dials()[n0:] {
								if d.Remote == sp.RemoteAddr() && d.Conn != nil && d.Plan.Kind == memnet.Accept {
									cn = d.Conn
								}
							}
						}
						w.Net.SetPlans(sp.RemoteAddr(), memnet.DialPlan{Kind: memnet.Refuse})
					} else {
						cn = w.Inbound(sp.Remote, "10.0.0.1")
					}
					if cn == nil {
						continue
					}
					// handshake, reacting to corebgp's messages
					if n, closed := cn.WaitWrites(1, 5*time.Second); n < 1 || closed {
						continue // not served (e.g. held down)
					}
					if s.UptoState != stOpenSent {
						cn.RemoteSend(world.RemoteOpen(sp, cn, s.RemoteHold, 0x0a0000c8+uint32(pi)).Frame(), nil)
						mu.Lock()
						tr.RemoteOpenSent[cn.ID] = true
						mu.Unlock()
						if n, closed := cn.WaitWrites(2, 5*time.Second); n >= 2 && !closed && s.UptoState != stOpenConfirm {
							cn.RemoteSend(wire.Keepalive(), nil)
							want := 2
							if c.Peers[pi].WriteEst {
								want = 3
								cn.WaitWrites(want, time.Second)
							}
							for k := 0; k < s.Updates; k++ {
								cn.RemoteSend(wire.Frame(wire.TypeUpdate, taggedUpdate(uint32(0x66000000+pi*65536+si*256+k), 5+k)), nil)
							}
							if s.Writes > 0 {
								// a local goroutine writes through the session's writer
								time.Sleep(time.Millisecond)
								sessIdx := w.Sessions(sp.Remote) - 1
								for k := 0; k < s.Writes && sessIdx >= 0; k++ {
									body := tagBody(pi, si, int64(100+si), k, 20+k)
									wc := writeCall{Peer: sp.Remote, G: int64(1000*pi + si), Idx: k, Body: body}
									wc.CallSeq = w.Net.NextSeq()
									id, err := w.WriteUpdate(sp.Remote, sessIdx, wc.G, body)
									wc.RetSeq = w.Net.NextSeq()
									wc.Sess = id
									wc.Err = err != nil
									mu.Lock()
									tr.Writes = append(tr.Writes, wc)
									mu.Unlock()
								}
							}
						}
					}
					time.Sleep(time.Duration(s.DwellMs) * time.Millisecond)
					switch s.End {
					case "rst":
						cn.RemoteReset()
					case "cease":
						cn.RemoteSend(wire.Notif{Code: 6, Sub: 4}.Frame(), nil)
						cn.WaitLocalClosed(time.Second)
						cn.RemoteClose()
					case "garbage":
						g := wire.Keepalive()
						g[5] = 1
						cn.RemoteSend(g, nil)
						cn.WaitLocalClosed(time.Second)
						cn.RemoteClose()
					case "silent":
						cn.WaitLocalClosed(time.Duration(max(int(s.RemoteHold), 1)+5) * time.Second)
						cn.RemoteClose()
					default:
						cn.RemoteClose()
					}
					cn.WaitLocalClosed(time.Second)
					time.Sleep(time.Duration(s.GapMs) * time.Millisecond)
				}
			}(i)
		}
		wg.Wait()
		fin := &apiCall{Name: "close(final)"}
		fin.CallSeq = w.Net.NextSeq()
		fin.Returned, fin.Took = w.Call("Close", "", 30*time.Second, w.Srv.Close)
		fin.RetSeq = w.Net.NextSeq()
		w.Settle()
		w.Advance(10 * time.Minute)
		tr.API = append(tr.API, *fin)
		tr.ServeRet, tr.ServeErr = w.ServeReturned()
		tr.Events = w.Rec.Events()
		for _, cn := range w.Net.Conns() {
			st := cn.Snapshot()
			tr.Conns = append(tr.Conns, st)
			tr.ConnPeer[st.ID] = st.Remote.Addr().String()
		}
		tr.Dials = w.Net.Dials()
		tr.Dump += w.Dump()
		w.Finish()
	})
	return tr
}

func genFreeRunning(rt *rapid.T) frCase {
	var c frCase
	for i, n := 0, rapid.IntRange(1, 2).Draw(rt, "npeers"); i < n; i++ {
		p := frPeer{Hold: pick(rt, "hold", 3, 9, 90, 0), Passive: rapid.IntRange(0, 3).Draw(rt, "passive") == 0, WriteEst: rapid.Bool().Draw(rt, "writeest")}
		for j, k := 0, rapid.IntRange(2, 5).Draw(rt, "nsess"); j < k; j++ {
			s := frSession{Dir: pick(rt, "dir", "out", "out", "in"), RemoteHold: pick[uint16](rt, "rhold", 3, 6, 90, 0),
				Updates: rapid.IntRange(0, 4).Draw(rt, "updates"), Writes: rapid.IntRange(0, 4).Draw(rt, "writes"),
				DwellMs: pick(rt, "dwell", 0, 1, 1100, 2100, 3100), End: pick(rt, "end", "fin", "fin", "cease", "rst", "garbage", "silent"),
				GapMs: pick(rt, "gap", 0, 1, 250, 61000), UptoState: pick(rt, "upto", stEstablished, stEstablished, stEstablished, stOpenConfirm, stOpenSent)}
			if s.End == "garbage" {
				s.GapMs = 61000 // sit out the hold-down
			}
			p.Sessions = append(p.Sessions, s)
		}
		c.Peers = append(c.Peers, p)
	}
	if rapid.IntRange(0, 3).Draw(rt, "delays") == 0 {
		c.Delays = []int64{0, 1, 0, 2, 0, 0, 3, 0}
	}
	return c
}

// frProp judges a free-running case with the C01 history invariants and the
// C04 stream/writer invariants.
func frProp(t *testing.T, r *hx.Run, sub string) func(c frCase) hx.Verdict {
	return func(c frCase) hx.Verdict {
		r.SetCurrent(sub, c)
		tr := runFreeRunning(t, c)
		s := script{Peers: make([]world.PeerSpec, len(c.Peers))}
		dev, st := c01Check(s, tr)
		if dev == nil {
			dev, _ = c04Check(s, tr)
		}
		v := hx.Verdict{Dev: dev, Class: fmt.Sprintf("sessions=%d", min(st.maxSessions, 4))}
		if st.maxSessions >= 2 {
			v.NT = fmt.Sprintf("%+v", c)
		}
		return v
	}
}
