package props

import (
	"errors"
	"bytes"
	"fmt"
	"iter"
	"sync/atomic"
	"testing"

	"github.com/jwhited/corebgp"
	"pgregory.net/rapid"

	"verif/sim/hx"
	"verif/sim/wire"
)

// C16 - UpdateDecoder partitions an UPDATE exactly as its length fields dictate.

type c16Case struct {
	B     hx.Hex `json:"b,omitempty"`
	Giant *struct {
		Total int    `json:"total"`
		WRL   uint16 `json:"wrl"`
		PAL   uint16 `json:"pal"`
	} `json:"giant,omitempty"`
	// ErrOn: attribute type codes for which the path-attribute callback returns a
	// non-fatal error (1 attribute discard, 2 treat-as-withdraw, 3 a plain error)
	ErrOn map[uint8]uint8 `json:"err_on,omitempty"`
}

func (c c16Case) bytes() []byte {
	if c.Giant != nil {
		return giantUpdate(c.Giant.Total, c.Giant.WRL, c.Giant.PAL)
	}
	return c.B
}

type c16Rec struct {
	evs   []wire.PartEvent
	errOn map[uint8]uint8
}

var errC16Plain = errors.New("c16: callback does not like this attribute")

// c16Fresh: every evaluation builds a decoder of its own (concurrent sub-check); otherwise
// one decoder serves all evaluations of the process, as a plugin would use it
var c16Fresh atomic.Bool

func c16Dec() *corebgp.UpdateDecoder[*c16Rec] {
	if c16Fresh.Load() {
		return newC16Decoder()
	}
	return c16Decoder
}

var c16Decoder = newC16Decoder()

func newC16Decoder() *corebgp.UpdateDecoder[*c16Rec] {
	return corebgp.NewUpdateDecoder[*c16Rec](
		func(r *c16Rec, b []byte) error {
			r.evs = append(r.evs, wire.PartEvent{Kind: "wr", Val: append([]byte{}, b...)})
			return nil
		},
		func(r *c16Rec, code uint8, flags corebgp.PathAttrFlags, b []byte) error {
			r.evs = append(r.evs, wire.PartEvent{Kind: "attr", Type: code, Flags: uint8(flags), Val: append([]byte{}, b...)})
			switch r.errOn[code] {
			case 1:
				return &corebgp.AttrDiscardUpdateErr{Code: code}
			case 2:
				return &corebgp.TreatAsWithdrawUpdateErr{Code: code}
			case 3:
				return errC16Plain
			}
			return nil
		},
		func(r *c16Rec, b []byte) error {
			r.evs = append(r.evs, wire.PartEvent{Kind: "nlri", Val: append([]byte{}, b...)})
			return nil
		},
	)
}

// dropEmptySections removes withdrawn/NLRI callbacks with no bytes: whether
// an empty section is announced to its callback is not part of the statement.
func dropEmptySections(evs []wire.PartEvent) []wire.PartEvent {
	var out []wire.PartEvent
	for _, e := range evs {
		if e.Kind != "attr" && len(e.Val) == 0 {
			continue
		}
		out = append(out, e)
	}
	return out
}

func diffEvents(got, want []wire.PartEvent) string {
	got, want = dropEmptySections(got), dropEmptySections(want)
	for i := 0; i < len(got) || i < len(want); i++ {
		switch {
		case i >= len(got):
			return fmt.Sprintf("callback %d missing: want %v", i, want[i])
		case i >= len(want):
			return fmt.Sprintf("unexpected callback %d: %v", i, got[i])
		}
		g, w := got[i], want[i]
		if g.Kind != w.Kind || g.Type != w.Type || g.Flags != w.Flags || !bytes.Equal(g.Val, w.Val) {
			return fmt.Sprintf("callback %d: got %v want %v", i, g, w)
		}
	}
	return ""
}

func c16Class(p wire.Partition) string {
	switch {
	case p.Abort != "":
		return "abort"
	case p.Ambiguous:
		return "dupmp+overrun"
	case p.DupMP:
		return "dupmp"
	case p.Overrun:
		return "overrun"
	case p.NDup > 0:
		return "dup"
	case p.NExtLen > 0:
		return "extlen"
	}
	return fmt.Sprintf("plain/attrs=%d", min(p.NAttrs, 3))
}

func c16Prop(c c16Case) hx.Verdict {
	b := c.bytes()
	ref := wire.PartitionUpdate(b)
	v := hx.Verdict{Class: c16Class(ref)}
	if c.Giant != nil {
		v.Class = "giant/" + v.Class
		v.NT = fmt.Sprintf("giant/%d/%d/%d", c.Giant.Total, c.Giant.WRL, c.Giant.PAL)
	} else if ref.NAttrs >= 2 || ref.NDup > 0 || ref.NExtLen > 0 || ref.Overrun || ref.DupMP {
		v.NT = h64(b)
	}
	rec := &c16Rec{errOn: c.ErrOn}
	if len(c.ErrOn) > 0 {
		v.Class = "cberr/" + v.Class
		if v.NT != "" {
			v.NT += fmt.Sprint(c.ErrOn)
		}
	}
	in := append([]byte(nil), b...)
	err := c16Dec().Decode(rec, in)
	_ = err // error classes are C17's business
	if ref.Abort != "" {
		if len(rec.evs) != 0 {
			v.Dev = hx.Devf("callback-after-abort", "%s, yet %d callbacks ran (first %v)", ref.Abort, len(rec.evs), rec.evs[0])
		}
		return v
	}
	d := diffEvents(rec.evs, ref.Events)
	if d != "" && ref.Ambiguous && diffEvents(rec.evs, ref.Alt) == "" {
		d = ""
	}
	if d != "" {
		v.Dev = hx.Devf("partition-mismatch", "%s (body %x)", d, clip(b))
	}
	return v
}

var c16Alphabet = []byte{0x00, 0x01, 0x02, 0x03, 0x04, 0x05, 0x0e, 0x0f, 0x10, 0x40, 0x80, 0x90, 0xc0, 0xff}

// allStrings enumerates every string over the alphabet of length 0..maxLen.
func allStrings(alpha []byte, maxLen int) iter.Seq[c16Case] {
	return func(yield func(c16Case) bool) {
		for n := 0; n <= maxLen; n++ {
			idx := make([]int, n)
			for {
				b := make([]byte, n)
				for i, k := range idx {
					b[i] = alpha[k]
				}
				if !yield(c16Case{B: b}) {
					return
				}
				i := n - 1
				for i >= 0 {
					idx[i]++
					if idx[i] < len(alpha) {
						break
					}
					idx[i] = 0
					i--
				}
				if i < 0 {
					break
				}
			}
		}
	}
}

// attrBlockBodies wraps every string over the alphabet as the path attribute
// block of a body with empty withdrawn routes and three NLRI variants.
func attrBlockBodies(alpha []byte, maxLen int) iter.Seq[c16Case] {
	nlris := [][]byte{nil, {0x00}, {0x08, 0x0a}}
	return func(yield func(c16Case) bool) {
		for c := range allStrings(alpha, maxLen) {
			for _, nl := range nlris {
				b := make([]byte, 0, 4+len(c.B)+len(nl))
				b = append(b, 0, 0, 0, byte(len(c.B)))
				b = append(b, c.B...)
				b = append(b, nl...)
				if !yield(c16Case{B: b}) {
					return
				}
			}
		}
	}
}

func countStrings(k, maxLen int) int64 {
	var t, p int64 = 0, 1
	for n := 0; n <= maxLen; n++ {
		t += p
		p *= int64(k)
	}
	return t
}

func giantCases() []c16Case {
	var out []c16Case
	for _, total := range []int{65536, 65537, 65538, 65539, 65540, 65541, 70000, 131074} {
		for _, wrl := range []int{0, 1, 2, 0xFFFD, 0xFFFE, 0xFFFF, total - 4, total - 5} {
			if wrl < 0 || wrl > 0xFFFF {
				continue
			}
			for _, pal := range []int{0, 1, 0xFFFE, 0xFFFF, total - 4 - wrl, total - 5 - wrl} {
				if pal < 0 || pal > 0xFFFF {
					continue
				}
				cc := c16Case{}
				cc.Giant = &struct {
					Total int    `json:"total"`
					WRL   uint16 `json:"wrl"`
					PAL   uint16 `json:"pal"`
				}{total, uint16(wrl), uint16(pal)}
				out = append(out, cc)
			}
		}
	}
	return out
}

func TestC16(t *testing.T) {
	r := hx.Start(t, "C16")
	defer r.Finish(t)

	// every short string as a whole body (exercises the framing checks) ...
	hx.Enum(r, t, "alphabet_bodies_len<=4", countStrings(len(c16Alphabet), 4), allStrings(c16Alphabet, 4), c16Prop)
	// ... and every short string as the attribute block of an otherwise
	// consistent body, with no NLRI / one-octet NLRI / two-octet NLRI
	maxLen := 5
	if !r.Quick() {
		maxLen = 7
	}
	hx.Enum(r, t, fmt.Sprintf("alphabet_attr_blocks_len<=%d", maxLen), 3*countStrings(len(c16Alphabet), maxLen), attrBlockBodies(c16Alphabet, maxLen), c16Prop)

	gc := giantCases()
	hx.Enum(r, t, "giant_buffers", int64(len(gc)), iter.Seq[c16Case](func(yield func(c16Case) bool) {
		for _, c := range gc {
			if !yield(c) {
				return
			}
		}
	}), c16Prop)

	genOne := func(rt *rapid.T) c16Case {
		b, _ := genUpdateBody(rt)
		return c16Case{B: b}
	}
	hx.Rapid(r, t, "grammar", r.N(60000, 600000), genOne, c16Prop)

	// the partition does not depend on what the path-attribute callback returns, as long
	// as it is not a session reset: a type code is "seen" once it was handed on, whether or
	// not the callback liked it (seeded change C16v)
	genErr := func(rt *rapid.T) c16Case {
		c := genOne(rt)
		ref := wire.PartitionUpdate(c.B)
		c.ErrOn = map[uint8]uint8{}
		var codes []uint8
		for _, e := range ref.Events {
			if e.Kind == "attr" {
				codes = append(codes, e.Type)
			}
		}
		n := rapid.IntRange(1, 3).Draw(rt, "nerr")
		for i := 0; i < n; i++ {
			var code uint8
			if len(codes) > 0 && rapid.IntRange(0, 9).Draw(rt, "present") > 0 {
				code = rapid.SampledFrom(codes).Draw(rt, "code")
			} else {
				code = rapid.Uint8().Draw(rt, "anycode")
			}
			c.ErrOn[code] = uint8(rapid.IntRange(1, 3).Draw(rt, "kind"))
		}
		return c
	}
	hx.Rapid(r, t, "erring_callbacks", r.N(30000, 300000), genErr, c16Prop)

	c16Fresh.Store(true)
	hx.Rapid(r, t, "concurrent_decoders", r.N(400, 4000), genConc(genOne, 2, 6, 40), concProp(c16Prop))
	c16Fresh.Store(false)
}

func FuzzC16Partition(f *testing.F) {
	f.Add([]byte{0, 0, 0, 0})
	f.Add([]byte{0x00, 0x03, 0x10, 0x0a, 0x00, 0x00, 0x1b, 0x40, 0x01, 0x01, 0x01, 0x40, 0x02, 0x06, 0x02, 0x01, 0x00, 0x00, 0xfd, 0xea, 0x40, 0x03, 0x04, 0xc0, 0x00, 0x02, 0x02, 0xc0, 0x08, 0x04, 0xfd, 0xea, 0xff, 0xff, 0x18, 0xc0, 0x00, 0x02})
	f.Add([]byte{0, 0, 0, 8, 0x90, 14, 0, 0, 0x90, 14, 0, 0})
	f.Add([]byte{0, 0, 0, 7, 0x80, 15, 0, 0x80, 15, 9, 0})
	f.Add([]byte{0xff, 0xff, 0xff, 0xff})
	f.Add([]byte{0, 0, 0xff, 0xfe, 0x50, 1, 0xff, 0xfa})
	f.Fuzz(func(t *testing.T, b []byte) {
		v := c16Prop(c16Case{B: b})
		if v.Dev != nil {
			t.Fatalf("key=%s %s", v.Dev.Key, v.Dev.Msg)
		}
	})
}
