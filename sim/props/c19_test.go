package props

import (
	"bytes"
	"errors"
	"fmt"
	"iter"
	"net/netip"
	"sync/atomic"
	"testing"

	"github.com/jwhited/corebgp"
	"pgregory.net/rapid"

	"verif/sim/hx"
	"verif/sim/wire"
)

// C19 - prefix, NLRI, add-path and MP_REACH/MP_UNREACH decoders are exact.

type c19List struct {
	Entry   string `json:"entry"` // nlri, withdrawn, mp
	AddPath bool   `json:"add_path"`
	B       hx.Hex `json:"b"`
	Corrupt string `json:"corrupt,omitempty"`
	N       int    `json:"n,omitempty"` // number of prefixes encoded before corruption
}

type gotPfx struct {
	id   uint32
	bits int
	addr []byte
}

// c19RunList calls the exported entry point and returns the decoded list in a
// neutral form, whether the user callback ran, and the error.
// c19Sink receives what the decode functions hand to their callbacks. The slices are kept
// as they are (not copied): a decode function is built once and serves every UPDATE of a
// session, and what it handed over for one UPDATE must not change when it decodes the next.
type c19Sink struct {
	plain  [][]netip.Prefix
	ap     [][]corebgp.AddPathPrefix
	called int
}

func c19Plain(s *c19Sink, ps []netip.Prefix) error {
	s.called++
	s.plain = append(s.plain, ps)
	return nil
}

func c19AP(s *c19Sink, ps []corebgp.AddPathPrefix) error {
	s.called++
	s.ap = append(s.ap, ps)
	return nil
}

// c19Fns builds one set of decode functions; c19Shared serves the sequential sub-checks
// (re-use across cases is the point), the concurrent sub-check builds a set per evaluation.
type c19FnSet struct {
	nlri, nlriAP, wr, wrAP corebgp.DecodeFn[*c19Sink]
}

func newC19Fns() *c19FnSet {
	return &c19FnSet{
		nlri:   corebgp.NewNLRIDecodeFn[*c19Sink](c19Plain),
		nlriAP: corebgp.NewNLRIAddPathDecodeFn[*c19Sink](c19AP),
		wr:     corebgp.NewWithdrawnRoutesDecodeFn[*c19Sink](c19Plain),
		wrAP:   corebgp.NewWithdrawnAddPathRoutesDecodeFn[*c19Sink](c19AP),
	}
}

var (
	c19Shared = newC19Fns()
	c19Fresh  atomic.Bool
)

// interference: other well-formed fields decoded by the same functions afterwards
var (
	c19Other4   = []byte{24, 198, 51, 100, 16, 172, 16, 32, 192, 0, 2, 1, 0}
	c19Other4AP = []byte{0, 0, 0, 9, 24, 198, 51, 100, 0, 0, 0, 8, 16, 172, 16}
	c19Other6   = []byte{64, 0x20, 0x01, 0x0d, 0xb9, 0, 0, 0, 1, 128, 0x20, 0x01, 0x0d, 0xb8, 0, 0, 0, 0, 0, 0, 0, 0, 0, 0, 0, 7}
	c19Other6AP = []byte{0, 0, 0, 5, 64, 0x20, 0x01, 0x0d, 0xb9, 0, 0, 0, 1}
)

func c19RunList(c c19List) (got []gotPfx, called int, err error) {
	b := append([]byte(nil), c.B...)
	fns := c19Shared
	if c19Fresh.Load() {
		fns = newC19Fns()
	}
	sink := &c19Sink{}
	var fn corebgp.DecodeFn[*c19Sink]
	other := c19Other4
	switch {
	case c.Entry == "nlri" && !c.AddPath:
		fn = fns.nlri
	case c.Entry == "nlri":
		fn, other = fns.nlriAP, c19Other4AP
	case c.Entry == "withdrawn" && !c.AddPath:
		fn = fns.wr
	case c.Entry == "withdrawn":
		fn, other = fns.wrAP, c19Other4AP
	}
	partial := false
	if fn != nil {
		err = fn(sink, b)
		if err == nil {
			fn(&c19Sink{}, append([]byte(nil), other...)) // nolint: errcheck
		}
	} else if !c.AddPath {
		var ps []netip.Prefix
		ps, err = corebgp.DecodeMPIPv6Prefixes(b)
		if err == nil {
			c19Plain(sink, ps)                                              // nolint: errcheck
			corebgp.DecodeMPIPv6Prefixes(append([]byte(nil), c19Other6...)) // nolint: errcheck
		} else if len(ps) > 0 {
			partial = true // partial result with an error
		}
	} else {
		var ps []corebgp.AddPathPrefix
		ps, err = corebgp.DecodeMPIPv6AddPathPrefixes(b)
		if err == nil {
			c19AP(sink, ps)                                                          // nolint: errcheck
			corebgp.DecodeMPIPv6AddPathPrefixes(append([]byte(nil), c19Other6AP...)) // nolint: errcheck
		} else if len(ps) > 0 {
			partial = true
		}
	}
	// only now is the result read
	for _, ps := range sink.plain {
		for _, p := range ps {
			got = append(got, gotPfx{bits: p.Bits(), addr: p.Addr().AsSlice()})
		}
	}
	for _, ps := range sink.ap {
		for _, p := range ps {
			got = append(got, gotPfx{id: p.ID, bits: p.Prefix.Bits(), addr: p.Prefix.Addr().AsSlice()})
		}
	}
	called = sink.called
	if partial {
		called = -1
	}
	return
}

func c19ListProp(c c19List) hx.Verdict {
	ipv6 := c.Entry == "mp"
	ref, ok := wire.ParsePrefixes(c.B, ipv6, c.AddPath)
	v := hx.Verdict{Class: fmt.Sprintf("%s/ap=%v/ok=%v", c.Entry, c.AddPath, ok)}
	unaligned := false
	for _, p := range ref {
		if p.Bits%8 != 0 {
			unaligned = true
		}
	}
	if (ok && len(ref) >= 2 && unaligned) || (!ok && len(c.B) > 1) {
		v.NT = fmt.Sprintf("%s/%v/%s", c.Entry, c.AddPath, h64(c.B))
	}
	got, called, err := c19RunList(c)
	if !ok {
		if err == nil {
			v.Dev = hx.Devf("prefix-accepts-malformed", "%s decoder accepted %x (decoded %d prefixes)", c.Entry, clip(c.B), len(got))
			return v
		}
		if called != 0 {
			v.Dev = hx.Devf("prefix-partial", "%s decoder failed but delivered prefixes", c.Entry)
			return v
		}
		var n *corebgp.Notification
		if !errors.As(err, &n) || n.Code != 3 {
			v.Dev = hx.Devf("prefix-wrong-error", "%s failure is %v, want a *Notification with code 3", c.Entry, err)
			return v
		}
		if c.Entry == "nlri" && n.Subcode != 10 {
			v.Dev = hx.Devf("nlri-wrong-subcode", "NLRI failure carries (%d,%d), want (3,10) Invalid Network Field", n.Code, n.Subcode)
		}
		return v
	}
	if err != nil {
		v.Dev = hx.Devf("prefix-rejects-valid", "%s decoder rejected the well-formed field %x: %v", c.Entry, clip(c.B), err)
		return v
	}
	if called != 1 {
		v.Dev = hx.Devf("prefix-callback-count", "%s callback ran %d times", c.Entry, called)
		return v
	}
	if len(got) != len(ref) {
		v.Dev = hx.Devf("prefix-count", "%s decoded %d prefixes, %d were encoded (%x)", c.Entry, len(got), len(ref), clip(c.B))
		return v
	}
	for i, g := range got {
		w := ref[i]
		wantLen := 4
		if ipv6 {
			wantLen = 16
		}
		if g.bits != w.Bits || len(g.addr) != wantLen || !wire.SameBits(g.addr, w.Addr, w.Bits) || (c.AddPath && g.id != w.ID) {
			v.Dev = hx.Devf("prefix-wrong", "%s prefix %d: got id=%d %x/%d, encoded id=%d %x/%d", c.Entry, i, g.id, g.addr, g.bits, w.ID, w.Addr, w.Bits)
			return v
		}
		// no address bits are invented: the octets that were not encoded are zero, and the
		// trailing bits of the last encoded octet are either kept as sent or cleared
		enc := (w.Bits + 7) / 8
		for k := enc; k < len(g.addr); k++ {
			if g.addr[k] != 0 {
				v.Dev = hx.Devf("prefix-invented-bits", "%s prefix %d of %d: decoded address %x/%d has non-zero octet %d, only %d octets were encoded (%x)", c.Entry, i, len(got), g.addr, g.bits, k, enc, w.Addr)
				return v
			}
		}
		if r := w.Bits % 8; r != 0 && enc-1 < len(w.Addr) {
			sent := w.Addr[enc-1]
			if g.addr[enc-1] != sent && g.addr[enc-1] != sent&(0xFF<<(8-r)) {
				v.Dev = hx.Devf("prefix-invented-bits", "%s prefix %d: last octet decoded as %02x, sent %02x with %d significant bits", c.Entry, i, g.addr[enc-1], sent, r)
				return v
			}
		}
	}
	return v
}

func genC19List(rt *rapid.T) c19List {
	c := c19List{Entry: pick(rt, "entry", "nlri", "withdrawn", "mp"), AddPath: rapid.Bool().Draw(rt, "ap")}
	ps := genPfxList(rt, c.Entry == "mp", c.AddPath, pick(rt, "maxn", 3, 8, 60))
	c.N = len(ps)
	b := wire.EncodePrefixes(ps, c.AddPath)
	switch rapid.IntRange(0, 7).Draw(rt, "corrupt") {
	case 0:
		if len(b) > 0 {
			c.Corrupt = "truncate"
			b = b[:rapid.IntRange(0, len(b)-1).Draw(rt, "cut")]
		}
	case 1:
		// raise one length octet beyond the maximum
		if len(ps) > 0 {
			c.Corrupt = "len>max"
			k := rapid.IntRange(0, len(ps)-1).Draw(rt, "which")
			off := 0
			for i := 0; i < k; i++ {
				off += len(wire.EncodePrefixes(ps[i:i+1], c.AddPath))
			}
			if c.AddPath {
				off += 4
			}
			max := 32
			if c.Entry == "mp" {
				max = 128
			}
			b[off] = uint8(pick(rt, "badlen", max+1, max+8, 255, 200))
		}
	case 2:
		c.Corrupt = "mutate"
		b, _ = mutateBytes(rt, b)
	}
	c.B = b
	return c
}

// ---- MP_REACH / MP_UNREACH splitters

type c19MP struct {
	Unreach bool   `json:"unreach,omitempty"`
	Flags   uint8  `json:"flags"`
	B       hx.Hex `json:"b"`
}

func c19MPProp(c c19MP) hx.Verdict {
	b := append([]byte(nil), c.B...)
	flagsOK := c.Flags&0xC0 == 0x80
	called := 0
	var gAFI uint16
	var gSAFI uint8
	var gNH, gRest []byte
	var err error
	var x int
	var refOK bool
	var wAFI uint16
	var wSAFI uint8
	var wNH, wRest []byte
	nearBoundary := false
	if c.Unreach {
		ref := wire.SplitMPUnreach(c.B)
		refOK, wAFI, wSAFI, wRest = ref.OK, ref.AFI, ref.SAFI, ref.Withdrawn
		nearBoundary = len(c.B) >= 2 && len(c.B) <= 4
		err = corebgp.NewMPUnreachNLRIDecodeFn[*int](func(_ *int, afi uint16, safi uint8, wd []byte) error {
			called++
			gAFI, gSAFI, gRest = afi, safi, append([]byte{}, wd...)
			return nil
		})(&x, corebgp.PathAttrFlags(c.Flags), b)
	} else {
		ref := wire.SplitMPReach(c.B)
		refOK, wAFI, wSAFI, wNH, wRest = ref.OK, ref.AFI, ref.SAFI, ref.NextHop, ref.NLRI
		if len(c.B) >= 4 {
			d := len(c.B) - (4 + int(c.B[3]) + 1)
			nearBoundary = d >= -1 && d <= 1
		}
		err = corebgp.NewMPReachNLRIDecodeFn[*int](func(_ *int, afi uint16, safi uint8, nh, nlri []byte) error {
			called++
			gAFI, gSAFI, gNH, gRest = afi, safi, append([]byte{}, nh...), append([]byte{}, nlri...)
			return nil
		})(&x, corebgp.PathAttrFlags(c.Flags), b)
	}
	v := hx.Verdict{Class: fmt.Sprintf("unreach=%v/ok=%v/flagsok=%v", c.Unreach, refOK, flagsOK)}
	if nearBoundary || (refOK && !flagsOK) {
		v.NT = fmt.Sprintf("%v/%02x/%s", c.Unreach, c.Flags, h64(c.B))
	}
	if !refOK {
		var n *corebgp.Notification
		if err == nil || !errors.As(err, &n) {
			v.Dev = hx.Devf("mp-short-not-reset", "attribute of %d bytes is too short for its fields, want a *Notification-class error, got %v", len(c.B), err)
			return v
		}
		if n.Code != 3 {
			v.Dev = hx.Devf("mp-wrong-notification", "too-short MP attribute reported with code %d", n.Code)
			return v
		}
		if called != 0 {
			v.Dev = hx.Devf("mp-callback-on-short", "callback ran for a too-short attribute")
		}
		return v
	}
	if called > 1 {
		v.Dev = hx.Devf("mp-callback-count", "callback ran %d times", called)
		return v
	}
	if called == 1 {
		if gAFI != wAFI || gSAFI != wSAFI || !bytes.Equal(gNH, wNH) || !bytes.Equal(gRest, wRest) {
			key := "mp-split-wrong"
			if !c.Unreach && len(c.B) > 3 && c.B[3] == 255 {
				key = "mpreach-nhlen-255"
			}
			v.Dev = hx.Devf(key, "callback got afi=%d safi=%d nh=%x rest=%x; the attribute carries afi=%d safi=%d nh=%x rest=%x", gAFI, gSAFI, clip(gNH), clip(gRest), wAFI, wSAFI, clip(wNH), clip(wRest))
			return v
		}
	}
	if flagsOK {
		if called != 1 {
			v.Dev = hx.Devf("mp-callback-missing", "well-formed attribute with correct flags: callback ran %d times", called)
			return v
		}
		if err != nil {
			v.Dev = hx.Devf("mp-rejects-valid", "well-formed attribute with correct flags and a nil callback result returned %v", err)
		}
		return v
	}
	// Optional/Transitive conflict: RFC 7606 3.c - malformed, treat-as-withdraw (or stronger)
	if err == nil {
		v.Dev = hx.Devf("mp-flags-accepted", "flags %#02x conflict with optional non-transitive, yet no error", c.Flags)
		return v
	}
	var taw *corebgp.TreatAsWithdrawUpdateErr
	var n *corebgp.Notification
	if !errors.As(err, &taw) && !errors.As(err, &n) {
		v.Dev = hx.Devf("mp-flags-wrong-class", "flag conflict reported as %v", err)
		return v
	}
	// the error is about this attribute: MP_REACH_NLRI is 14, MP_UNREACH_NLRI 15 (RFC 7606 3.c:
	// the Attribute Flags Error names the attribute whose flags conflict)
	wantCode := uint8(14)
	if c.Unreach {
		wantCode = 15
	}
	if errors.As(err, &taw) {
		if taw.Code != wantCode {
			v.Dev = hx.Devf("mp-flags-wrong-attribute", "flag conflict on attribute %d reported as treat-as-withdraw for attribute code %d", wantCode, taw.Code)
			return v
		}
	}
	return v
}

type c19NH struct {
	NH hx.Hex `json:"nh"`
}

func c19NHProp(c c19NH) hx.Verdict {
	v := hx.Verdict{Class: fmt.Sprintf("len=%d", len(c.NH)), NT: h64(c.NH)}
	got, err := corebgp.DecodeMPReachIPv6NextHops(append([]byte(nil), c.NH...))
	if len(c.NH) != 16 && len(c.NH) != 32 {
		var n *corebgp.Notification
		if err == nil || !errors.As(err, &n) || n.Code != 3 {
			v.Dev = hx.Devf("nexthop-bad-length-accepted", "next hop of %d bytes: want a *Notification (code 3), got %v", len(c.NH), err)
		} else if len(got) != 0 {
			v.Dev = hx.Devf("nexthop-partial", "error and %d addresses", len(got))
		}
		return v
	}
	if err != nil || len(got) != len(c.NH)/16 {
		v.Dev = hx.Devf("nexthop-rejects-valid", "next hop of %d bytes: %d addresses, err %v", len(c.NH), len(got), err)
		return v
	}
	for i, a := range got {
		if !bytes.Equal(a.AsSlice(), c.NH[16*i:16*i+16]) {
			v.Dev = hx.Devf("nexthop-wrong", "address %d is %v, encoded %x", i, a, c.NH[16*i:16*i+16])
		}
	}
	return v
}

func TestC19(t *testing.T) {
	r := hx.Start(t, "C19")
	defer r.Finish(t)

	// every prefix length of each family as a single entry (plain and
	// add-path), preceded by 0..2 other entries, and every truncation of it
	hx.Enum(r, t, "every_length_every_truncation", 0, iter.Seq[c19List](func(yield func(c19List) bool) {
		for _, entry := range []string{"nlri", "withdrawn", "mp"} {
			max := 32
			if entry == "mp" {
				max = 128
			}
			for _, ap := range []bool{false, true} {
				for bits := 0; bits <= 255; bits++ {
					if bits > max+2 && bits != 255 && bits != 200 {
						continue
					}
					for pre := 0; pre <= 2; pre++ {
						var ps []wire.Pfx
						for i := 0; i < pre; i++ {
							ps = append(ps, wire.Pfx{ID: uint32(i + 1), Bits: 9 + 7*i, Addr: detBytes((9+7*i+7)/8, uint32(i))})
						}
						ps = append(ps, wire.Pfx{ID: 0xdeadbeef, Bits: bits, Addr: detBytes((bits+7)/8, uint32(bits))})
						b := wire.EncodePrefixes(ps, ap)
						lastLen := len(wire.EncodePrefixes(ps[pre:], ap))
						for cut := len(b) - lastLen; cut <= len(b); cut++ {
							if !yield(c19List{Entry: entry, AddPath: ap, B: b[:cut], N: len(ps)}) {
								return
							}
						}
					}
				}
			}
		}
	}), c19ListProp)

	hx.Rapid(r, t, "prefix_lists", r.N(100000, 1000000), genC19List, c19ListProp)
	c19Fresh.Store(true)
	hx.Rapid(r, t, "concurrent_decoders", r.N(400, 4000), genConc(genC19List, 2, 6, 40), concProp(c19ListProp))
	c19Fresh.Store(false)

	// MP_REACH_NLRI: every next-hop length octet x body lengths around the boundary x flags
	flagSet := []uint8{0x80, 0x90, 0xA0, 0xC0, 0x40, 0x00}
	hx.Enum(r, t, "mpreach_every_nhlen", 0, iter.Seq[c19MP](func(yield func(c19MP) bool) {
		for nh := 0; nh < 256; nh++ {
			for _, d := range []int{-2, -1, 0, 1, 2, 6, 40} {
				total := 4 + nh + 1 + d
				if total < 0 {
					continue
				}
				for _, fl := range flagSet {
					b := detBytes(total, uint32(nh*7+d))
					if total > 3 {
						b[0], b[1], b[2], b[3] = 0, 2, 1, uint8(nh)
					}
					if !yield(c19MP{Flags: fl, B: b}) {
						return
					}
				}
			}
		}
		// bodies of 0..6 bytes with every value of the length octet position
		for total := 0; total <= 6; total++ {
			for x := 0; x < 256; x++ {
				b := detBytes(total, uint32(x))
				if total > 3 {
					b[3] = uint8(x)
				}
				if !yield(c19MP{Flags: 0x80, B: b}) {
					return
				}
			}
		}
	}), c19MPProp)

	// all 256 flag octets x a few bodies, both splitters; MP_UNREACH bodies 0..40
	hx.Enum(r, t, "mp_all_flags_and_unreach_lengths", 0, iter.Seq[c19MP](func(yield func(c19MP) bool) {
		reach := [][]byte{
			{0, 2, 1, 16, 1, 2, 3, 4, 5, 6, 7, 8, 9, 10, 11, 12, 13, 14, 15, 16, 0, 64, 0x20, 1, 0xd, 0xb8, 0, 0, 0, 0},
			{0, 1, 1, 4, 10, 0, 0, 1, 0, 24, 10, 1, 2},
			{0, 2, 1, 0, 0},
			{0, 2, 1},
		}
		for f := 0; f < 256; f++ {
			for _, b := range reach {
				if !yield(c19MP{Flags: uint8(f), B: b}) {
					return
				}
			}
			for _, n := range []int{0, 2, 3, 4, 20} {
				if !yield(c19MP{Unreach: true, Flags: uint8(f), B: detBytes(n, uint32(f))}) {
					return
				}
			}
		}
		for n := 0; n <= 40; n++ {
			for _, fl := range flagSet {
				if !yield(c19MP{Unreach: true, Flags: fl, B: detBytes(n, 3)}) {
					return
				}
			}
		}
	}), c19MPProp)

	hx.Rapid(r, t, "mp_generated", r.N(60000, 600000), func(rt *rapid.T) c19MP {
		c := c19MP{Unreach: rapid.Bool().Draw(rt, "unreach"), Flags: pick[uint8](rt, "flags", 0x80, 0x80, 0x90, rapid.Byte().Draw(rt, "flagsr"))}
		if c.Unreach {
			c.B = genAttrValue(rt, 15)
		} else {
			c.B = genAttrValue(rt, 14)
		}
		if rapid.IntRange(0, 3).Draw(rt, "mut") == 0 {
			c.B, _ = mutateBytes(rt, c.B)
		}
		return c
	}, c19MPProp)

	hx.Enum(r, t, "ipv6_nexthop_lengths", 0, iter.Seq[c19NH](func(yield func(c19NH) bool) {
		for n := 0; n <= 48; n++ {
			for s := uint32(0); s < 4; s++ {
				if !yield(c19NH{detBytes(n, s)}) {
					return
				}
			}
		}
		for _, n := range []int{64, 255, 256} {
			if !yield(c19NH{detBytes(n, 1)}) {
				return
			}
		}
	}), c19NHProp)
}

func FuzzC19Prefixes(f *testing.F) {
	f.Add(uint8(0), []byte{0x18, 0xc0, 0x00, 0x02})
	f.Add(uint8(1), []byte{0, 0, 0, 1, 0x18, 0xc0, 0x00, 0x02})
	f.Add(uint8(4), []byte{0x40, 0x20, 0x01, 0x0d, 0xb8, 0, 0, 0, 0})
	f.Add(uint8(5), []byte{0, 0, 0, 1, 0x40, 0x20, 0x01, 0x0d, 0xb8, 0, 0, 0, 0})
	f.Add(uint8(6), []byte{0, 2, 1, 255, 1, 2, 3})
	f.Add(uint8(7), []byte{0, 2, 1, 1, 2, 3})
	f.Fuzz(func(t *testing.T, sel uint8, b []byte) {
		var v hx.Verdict
		switch sel % 8 {
		case 0, 1, 2, 3, 4, 5:
			entry := []string{"nlri", "withdrawn", "mp"}[sel%8/2]
			v = c19ListProp(c19List{Entry: entry, AddPath: sel%2 == 1, B: b})
		case 6:
			v = c19MPProp(c19MP{Flags: 0x80, B: b})
		case 7:
			v = c19MPProp(c19MP{Unreach: true, Flags: 0x80, B: b})
		}
		if v.Dev != nil {
			t.Fatalf("key=%s %s", v.Dev.Key, v.Dev.Msg)
		}
	})
}
