package props

import (
	"bytes"
	"fmt"
	"iter"
	"strings"
	"testing"
	"time"

	"pgregory.net/rapid"

	"verif/sim/hx"
	"verif/sim/memnet"
	"verif/sim/wire"
	"verif/sim/world"
)

// C09 - state-dependent message handling follows RFC 4271 8.2.2 / RFC 6608.

type c09Case struct {
	State string `json:"state"`
	Out   bool   `json:"out"`
	// Stim: "open", "update", "notification", "keepalive", "fin", "rst"
	Stim   string      `json:"stim"`
	Notif  *wire.Notif `json:"notif,omitempty"`   // content of a received NOTIFICATION
	Raw    hx.Hex      `json:"raw,omitempty"`     // NOTIFICATION body override (e.g. shorter than 2 bytes)
	UpdLen int         `json:"upd_len,omitempty"` // UPDATE body length
	Hold   uint16      `json:"hold,omitempty"`    // hold time in a second OPEN
	// Prev: earlier sessions of the same peer (on the outbound direction: the
	// same FSM object), each Established and ended by a received Cease or a
	// TCP close, before the connection under test
	Prev []string `json:"prev,omitempty"` // "cease" | "fin"
	// Partial: for fin/rst, that many octets of a valid 40-byte UPDATE (legal or
	// not in the state - it is never complete) are sent before the connection is
	// closed: a close inside a header or a body is still a close
	Partial int   `json:"partial,omitempty"`
	Cuts    []int `json:"cuts,omitempty"`
	// Busy: the stimulus is pipelined, in one stream, behind the message that
	// brings the connection into the state (the OPEN, for OpenConfirm) or behind a
	// well-formed UPDATE (Established), whose plugin callback busy-waits: the
	// reader runs ahead of the FSM goroutine
	Busy bool `json:"busy,omitempty"`
	// ThenFin: the remote closes right behind an illegal message, in the same burst
	ThenFin bool `json:"then_fin,omitempty"`
	// ThenMsg: a complete message ("keepalive", "update", "notification") follows a
	// session-ending message in the same segment; it must change nothing
	ThenMsg string `json:"then_msg,omitempty"`
	// Hold0: the remote's OPEN proposes hold time 0 (no session timers); every
	// cell of the table must read the same
	Hold0 bool `json:"hold0,omitempty"`
	// NilHandler: OnEstablished returns a nil UpdateMessageHandler (a send-only speaker);
	// an UPDATE in Established is legal all the same (seeded change C09w)
	NilHandler bool `json:"nil_handler,omitempty"`
	// OpenVar: the unexpected OPEN (OpenConfirm / Established only) is well-formed but
	// would be unacceptable as a first OPEN: "version" (3), "as" (another AS), "hold"
	// (hold time 1), "id" (identifier 0). It is still a message of type OPEN.
	OpenVar string `json:"open_var,omitempty"`
}

var stimTypes = map[string]uint8{"open": 1, "update": 2, "notification": 3, "keepalive": 4}

func fsmSubcode(state string) uint8 {
	switch state {
	case stOpenSent:
		return 1
	case stOpenConfirm:
		return 2
	}
	return 3
}

func c09Prop(t *testing.T, r *hx.Run, sub string) func(c c09Case) hx.Verdict {
	return func(c c09Case) hx.Verdict {
		r.SetCurrent(sub, c)
		dir := "in"
		if c.Out {
			dir = "out"
		}
		v := hx.Verdict{Class: fmt.Sprintf("%s/%s/%s", c.State, c.Stim, dir)}
		v.NT = fmt.Sprintf("%s/%s/%s/%v/%x/%d/%d/%v/%d/%v/%v", c.State, c.Stim, dir, c.Notif, []byte(c.Raw), c.UpdLen, c.Hold, c.Prev, c.Partial, c.Busy, c.ThenFin) + fmt.Sprint(c.Hold0, c.NilHandler) + c.OpenVar + "/" + c.ThenMsg
		p := basePeer(c.Out)
		var dev *hx.Dev
		fail := func(key, f string, a ...any) {
			if dev == nil {
				dev = hx.Devf(key, f, a...)
			}
		}
		p.IdleHoldMs, p.ConnRetryMs = 100, 1000
		p.Plugin.NilHandler = c.NilHandler
		busy := c.Busy && (c.State == stOpenConfirm || c.State == stEstablished) && c.Stim != "fin" && c.Stim != "rst" && c.Partial == 0
		if busy {
			p.Plugin.SpinUs = map[string]int64{"open": 300, "upd": 300}
			v.Class += "/busy"
		}
		var prev []world.PrevSession
		for _, e := range c.Prev {
			// "in-cease" / "in-fin": with an outbound connection under test, the earlier session
			// was an inbound one (the dials were refused meanwhile)
			prev = append(prev, world.PrevSession{Hold: 90, End: strings.TrimPrefix(e, "in-"), In: strings.HasPrefix(e, "in-")})
		}
		o, serr := world.SinglePrev(t, "10.0.0.1", p, c.Out, nil, prev, func(w *world.World, conn *memnet.Conn) {
			func() {
				rhold := uint16(90)
				if c.Hold0 {
					rhold = 0
				}
				hs := handshakeBytes(p, conn, c.State, rhold)
				var lead []byte // sent in one stream with the stimulus
				if busy && c.State == stOpenConfirm {
					lead, hs = hs[len(hs)-1], hs[:len(hs)-1]
				}
				for _, m := range hs {
					conn.RemoteSend(m, nil)
					w.Settle()
				}
				busyUpd := taggedUpdate(0xD2000000, 17)
				if busy && c.State == stEstablished {
					lead = wire.Frame(wire.TypeUpdate, busyUpd)
				}
				before, perr := world.Parsed(conn)
				if perr != nil {
					fail("malformed-output", "%v", perr)
					return
				}
				count := func(k string) int {
					n := 0
					for _, e := range w.Rec.Events() {
						if e.K == k {
							n++
						}
					}
					return n
				}
				estBefore := count("est+")
				if busy && c.State == stOpenConfirm {
					// the OPEN is still to come: the state right now is OpenSent
				} else if (c.State == stEstablished) != (estBefore == len(c.Prev)+1) || (c.State != stEstablished && estBefore != len(c.Prev)) {
					fail("setup-state", "could not reach %s (OnEstablished x%d)", c.State, estBefore)
					return
				}
				nwBefore := len(conn.Snapshot().Writes)
				updBody := taggedUpdate(0xD0000000, c.UpdLen)
				var stim []byte
				switch c.Stim {
				case "open":
					hold := c.Hold
					if hold == 0 {
						hold = 90
					}
					o := world.RemoteOpen(p, conn, hold, 0x0a000002)
					if c.State != stOpenSent {
						switch c.OpenVar {
						case "version":
							o.Version = 3
						case "as":
							o.AS2 ^= 0x0101
						case "hold":
							o.Hold = 1
						case "id":
							o.ID = 0
						}
					}
					stim = o.Frame()
				case "update":
					stim = wire.Frame(wire.TypeUpdate, updBody)
				case "keepalive":
					stim = wire.Keepalive()
				case "notification":
					if c.Raw != nil {
						stim = wire.Frame(wire.TypeNotification, c.Raw)
					} else {
						stim = c.Notif.Frame()
					}
				case "fin", "rst":
					if c.Partial > 0 {
						m := wire.Frame(wire.TypeUpdate, taggedUpdate(0xD1000000, 21))
						conn.RemoteSend(m[:min(c.Partial, len(m)-1)], nil)
						w.Settle()
						nwBefore = len(conn.Snapshot().Writes)
					}
					if c.Stim == "fin" {
						conn.RemoteClose()
					} else {
						conn.RemoteReset()
					}
				}
				legal := (c.State == stOpenSent && c.Stim == "open") ||
					(c.State == stOpenConfirm && c.Stim == "keepalive") ||
					(c.State == stEstablished && (c.Stim == "keepalive" || c.Stim == "update"))
				thenFin := c.ThenFin && !legal && stim != nil && c.Stim != "notification"
				if stim != nil {
					cuts := c.Cuts
					if lead != nil {
						cuts = nil
						stim = append(append([]byte{}, lead...), stim...)
					}
					if !legal && c.ThenMsg != "" {
						cuts = nil
						stim = append([]byte{}, stim...)
						switch c.ThenMsg {
						case "keepalive":
							stim = append(stim, wire.Keepalive()...)
						case "update":
							stim = append(stim, wire.Frame(wire.TypeUpdate, taggedUpdate(0xD3000000, 23))...)
						case "notification":
							stim = append(stim, wire.Notif{Code: 6, Sub: 2}.Frame()...)
						}
					}
					conn.RemoteSend(stim, cuts)
					if thenFin {
						conn.RemoteClose()
					}
				}
				w.Settle()
				msgs, perr := world.Parsed(conn)
				if perr != nil {
					fail("malformed-output", "%v", perr)
					return
				}
				after := msgs[len(before):]
				if busy && c.State == stOpenConfirm {
					// the KEEPALIVE answering the pipelined OPEN comes first
					if len(after) == 0 || after[0].Type != wire.TypeKeepalive {
						fail("legal-open-refused", "valid OPEN in OpenSent (pipelined with a %s): corebgp sent %d messages (first type %v)", c.Stim, len(after), firstType(after))
						return
					}
					after = after[1:]
				}
				st := conn.Snapshot()
				wasEst := c.State == stEstablished
				if legal {
					switch {
					case c.State == stOpenSent:
						if len(after) != 1 || after[0].Type != wire.TypeKeepalive || st.LocalClosed {
							fail("legal-open-refused", "valid OPEN in OpenSent: corebgp sent %d messages (first type %v), closed=%v", len(after), firstType(after), st.LocalClosed)
						}
					case c.State == stOpenConfirm:
						if count("est+") != len(c.Prev)+1 || st.LocalClosed || len(after) != 0 {
							fail("legal-keepalive-refused", "KEEPALIVE in OpenConfirm: OnEstablished x%d, %d messages, closed=%v", count("est+"), len(after), st.LocalClosed)
						}
					default:
						if st.LocalClosed || len(after) != 0 {
							fail("legal-message-refused", "%s in Established: %d messages from corebgp, closed=%v", c.Stim, len(after), st.LocalClosed)
						}
						if c.Stim == "update" && !c.NilHandler {
							var got [][]byte
							for _, e := range w.Rec.Events() {
								if e.K == "upd+" {
									got = append(got, e.Data)
								}
							}
							if busy {
								if len(got) == 2 && bytes.Equal(got[0], busyUpd) {
									got = got[1:]
								} else {
									got = nil
								}
							}
							if len(got) != 1 || !bytes.Equal(got[0], updBody) {
								_ = 0
								fail("update-not-delivered", "UPDATE in Established: handler saw %d updates", len(got))
							}
						}
					}
					if count("close+") != len(c.Prev) {
						fail("onclose-unexpected", "OnClose fired after a legal message")
					}
					return
				}
				// everything else ends the connection
				if !st.LocalClosed {
					fail("not-closed", "%s in %s: connection still open", c.Stim, c.State)
					return
				}
				switch c.Stim {
				case "notification", "fin", "rst":
					if len(after) != 0 {
						n := wire.Notif{}
						if after[0].Type == wire.TypeNotification {
							n, _ = wire.ParseNotif(after[0].Body)
						}
						fail("reply-to-notification-or-close", "%s in %s must end the connection silently, corebgp sent %d messages (first type %d %v)", c.Stim, c.State, len(after), after[0].Type, n)
					}
					extra := len(st.Writes) - nwBefore
					if busy && c.State == stOpenConfirm {
						extra-- // the KEEPALIVE answering the pipelined OPEN
					}
					if extra != 0 {
						fail("reply-to-notification-or-close", "%s in %s must end the connection silently, corebgp attempted %d writes afterwards", c.Stim, c.State, extra)
					}
				default:
					if len(after) != 1 || after[0].Type != wire.TypeNotification {
						fail("fsm-error-missing", "%s in %s: want one NOTIFICATION, corebgp sent %d messages (first type %v)", c.Stim, c.State, len(after), firstType(after))
						return
					}
					n, _ := wire.ParseNotif(after[0].Body)
					if n.Code != 5 || n.Sub != fsmSubcode(c.State) {
						fail("fsm-error-wrong-code", "%s in %s answered with %v, want (5,%d)", c.Stim, c.State, n, fsmSubcode(c.State))
						return
					}
					if !bytes.Equal(n.Data, []byte{stimTypes[c.Stim]}) {
						key := "fsm-error-wrong-data"
						if len(n.Data) == 0 {
							key = "notif-1-byte-data-dropped"
						}
						fail(key, "%s in %s: FSM error data is %x, want the type octet %02x", c.Stim, c.State, n.Data, stimTypes[c.Stim])
						return
					}
				}
				// OnClose exactly once for an Established session, never otherwise;
				// no (re-)establishment afterwards on this connection
				w.Advance(300 * time.Millisecond)
				wantClose := len(c.Prev)
				if wasEst {
					wantClose++
				}
				if k := count("close+"); k != wantClose {
					fail("onclose-count", "%s in %s: OnClose fired %d times, want %d", c.Stim, c.State, k, wantClose)
				}
				if k := count("est+"); k != estBefore {
					fail("established-after-end", "OnEstablished fired after the connection had ended")
				}
			}()
		})
		if serr != nil {
			fail("setup", "%v", serr)
		}
		if b := o.Bad(); b != "" {
			fail("wedge", "%s", b)
		}
		v.Dev = dev
		return v
	}
}

func TestC09(t *testing.T) {
	r := hx.Start(t, "C09")
	defer r.Finish(t)

	// the complete table: state x stimulus x direction
	stims := []string{"open", "update", "notification", "keepalive", "fin", "rst"}
	hx.Enum(r, t, "state_x_message_x_direction", 0, iter.Seq[c09Case](func(yield func(c09Case) bool) {
		for _, st := range allStates {
			for _, s := range stims {
				for _, out := range []bool{false, true} {
					for _, prev := range [][]string{nil, {"cease"}, {"fin", "cease"}, {"in-fin"}} {
						c := c09Case{State: st, Stim: s, Out: out, UpdLen: 23, Prev: prev}
						if s == "notification" {
							c.Notif = &wire.Notif{Code: 6, Sub: 2}
						}
						if !yield(c) {
							return
						}
						if len(prev) == 0 {
							c3 := c
							c3.Hold0 = true
							if !yield(c3) {
								return
							}
							if s == "open" && st != stOpenSent {
								for _, ov := range []string{"version", "as", "hold", "id"} {
									c4 := c
									c4.OpenVar = ov
									if !yield(c4) {
										return
									}
								}
							}
						}
						if s != "fin" && s != "rst" && len(prev) < 2 {
							for _, bf := range [][2]bool{{true, false}, {false, true}, {true, true}} {
								c2 := c
								c2.Busy, c2.ThenFin = bf[0], bf[1]
								if !yield(c2) {
									return
								}
							}
							for _, tm := range []string{"keepalive", "update", "notification"} {
								for _, busy := range []bool{false, true} {
									c2 := c
									c2.ThenMsg, c2.Busy = tm, busy
									if !yield(c2) {
										return
									}
								}
							}
						}
					}
					if s == "fin" || s == "rst" {
						// the close arrives inside a header / right after it / inside a body
						for _, part := range []int{1, 18, 19, 20, 39} {
							if !yield(c09Case{State: st, Stim: s, Out: out, Partial: part}) {
								return
							}
						}
					}
				}
			}
		}
	}), c09Prop(t, r, "state_x_message_x_direction"))

	// every NOTIFICATION code, per state
	hx.Enum(r, t, "every_notification_code", 256*3, iter.Seq[c09Case](func(yield func(c09Case) bool) {
		for code := 0; code < 256; code++ {
			for si, st := range allStates {
				c := c09Case{State: st, Stim: "notification", Out: (code+si)%2 == 0,
					Notif: &wire.Notif{Code: uint8(code), Sub: uint8(code * 7), Data: detBytes(code%5, uint32(code))}}
				if !yield(c) {
					return
				}
			}
		}
	}), c09Prop(t, r, "every_notification_code"))

	// the FSM Error NOTIFICATION while plugin goroutines write UPDATEs on the same connection
	// (slow, serialised writes): it reaches the wire whole, once, and ends the connection
	hx.Rapid(r, t, "unexpected_while_writing", r.N(150, 2000), func(rt *rapid.T) c08Busy {
		c := genC08Busy(rt)
		c.Fault = "unexpected"
		return c
	}, c08BusyProp(t, r, "unexpected_while_writing"))

	hx.Rapid(r, t, "generated", r.N(3000, 40000), func(rt *rapid.T) c09Case {
		c := c09Case{State: pick(rt, "state", allStates...), Out: rapid.Bool().Draw(rt, "out"),
			Stim: pick(rt, "stim", "open", "update", "notification", "notification", "keepalive", "fin", "rst")}
		switch c.Stim {
		case "notification":
			if rapid.IntRange(0, 7).Draw(rt, "short") == 0 {
				c.Raw = genBytesN(rt, "raw", rapid.IntRange(0, 1).Draw(rt, "rawlen"))
				if c.Raw == nil {
					c.Raw = hx.Hex{}
				}
			} else {
				n := pick(rt, "dlen", 0, 1, 2, 255, 4075, rapid.IntRange(0, 4075).Draw(rt, "dlenr"))
				c.Notif = &wire.Notif{Code: rapid.Byte().Draw(rt, "code"), Sub: rapid.Byte().Draw(rt, "sub"), Data: genBytesN(rt, "data", n)}
			}
		case "update":
			c.UpdLen = pick(rt, "ulen", 0, 1, 4, 23, 4077, rapid.IntRange(0, 4077).Draw(rt, "ulenr"))
		case "open":
			c.Hold = pick[uint16](rt, "hold", 90, 3, 0, 65535)
			c.OpenVar = pick(rt, "openvar", "", "", "version", "as", "hold", "id")
		}
		if c.Stim != "fin" && c.Stim != "rst" {
			c.Cuts = genCuts(rt, 19+c.UpdLen+40)
		} else if rapid.Bool().Draw(rt, "partial") {
			c.Partial = pick(rt, "partialn", 1, 16, 18, 19, 20, 30, 39)
		}
		if rapid.IntRange(0, 2).Draw(rt, "withprev") == 0 {
			for i, k := 0, rapid.IntRange(1, 2).Draw(rt, "nprev"); i < k; i++ {
				c.Prev = append(c.Prev, pick(rt, "prevend", "cease", "fin", "in-cease", "in-fin"))
			}
		}
		c.Hold0 = rapid.IntRange(0, 3).Draw(rt, "hold0") == 0
		c.NilHandler = rapid.IntRange(0, 3).Draw(rt, "nilhandler") == 0
		c.Busy = rapid.IntRange(0, 2).Draw(rt, "busy") == 0
		c.ThenFin = rapid.IntRange(0, 2).Draw(rt, "thenfin") == 0
		if c.Stim != "fin" && c.Stim != "rst" {
			c.ThenMsg = pick(rt, "thenmsg", "", "", "keepalive", "update", "notification")
		}
		return c
	}, c09Prop(t, r, "generated"))
}
