package props

import (
	"bytes"
	"fmt"
	"testing"
	"time"

	"pgregory.net/rapid"

	"verif/sim/hx"
	"verif/sim/memnet"
	"verif/sim/wire"
	"verif/sim/world"
)

// C03 - inbound UPDATEs reach the handler exactly once, in order, byte-exact.

type c03Case struct {
	Out            bool             `json:"out"`
	Msgs           []int            `json:"msgs"` // -1 = KEEPALIVE, >= 0 = UPDATE of that body length
	Cuts           []int            `json:"cuts,omitempty"`
	ShareHandshake bool             `json:"share_handshake"` // the KEEPALIVE completing the handshake shares the stream
	ShareOpen      bool             `json:"share_open"`      // ... and so does the OPEN
	HandlerNotifOn int              `json:"handler_notif_on,omitempty"`
	HandlerNotif   *world.NotifSpec `json:"handler_notif,omitempty"`
	SleepUpdNs     int64            `json:"sleep_upd_ns,omitempty"`
	// Echo: the handler itself calls WriteUpdate on the session's writer (a route
	// reflector does), from inside its first call
	Echo       bool    `json:"echo,omitempty"`
	SleepEstNs int64   `json:"sleep_est_ns,omitempty"`
	End        string  `json:"end,omitempty"`         // "", "fin"
	LocalHold  *int    `json:"local_hold,omitempty"`  // configured hold time (nil: 90)
	RemoteHold *uint16 `json:"remote_hold,omitempty"` // hold time in the remote's OPEN (nil: 90)
	// Prev: earlier sessions of the same peer (outbound: the same FSM object)
	Prev []world.PrevSession `json:"prev,omitempty"`
}

func c03Prop(t *testing.T, r *hx.Run, subs ...string) func(c c03Case) hx.Verdict {
	subName := "update_delivery"
	if len(subs) > 0 {
		subName = subs[0]
	}
	return func(c c03Case) hx.Verdict {
		r.SetCurrent(subName, c)
		nUpd := 0
		for _, m := range c.Msgs {
			if m >= 0 {
				nUpd++
			}
		}
		// segmentation class
		stream0 := 0
		if c.ShareHandshake {
			stream0 += 19
		}
		inside, spanning := false, false
		{
			off := stream0
			bounds := map[int]bool{}
			for _, m := range c.Msgs {
				l := 19
				if m >= 0 {
					l += m
				}
				off += l
				bounds[off] = true
			}
			for _, k := range c.Cuts {
				if !bounds[k] && k > stream0 {
					inside = true
				}
			}
			prev := 0
			for _, k := range append(append([]int{}, c.Cuts...), off) {
				nb := 0
				for b := range bounds {
					if b > prev && b < k {
						nb++
					}
				}
				if nb >= 1 {
					spanning = true
				}
				prev = k
			}
		}
		v := hx.Verdict{Class: fmt.Sprintf("upd>=2=%v/inside=%v/spanning=%v/notif=%v/share=%v/end=%s", nUpd >= 2, inside, spanning, c.HandlerNotifOn > 0, c.ShareHandshake, c.End)}
		if nUpd >= 2 && (inside || spanning) {
			v.NT = fmt.Sprintf("%v/%v/%v/%d/%v/%v", c.Out, c.Msgs, c.Cuts, c.HandlerNotifOn, c.ShareHandshake, c.ShareOpen)
		}
		p := basePeer(c.Out)
		rhold := uint16(90)
		if c.LocalHold != nil {
			p.Hold = *c.LocalHold
		}
		if c.RemoteHold != nil {
			rhold = *c.RemoteHold
		}
		v.Class += fmt.Sprintf("/hold0=%v/slowhandler=%v/echo=%v", p.Hold == 0 || rhold == 0, c.SleepUpdNs >= int64(time.Second), c.Echo)
		p.Plugin.HandlerNotifOn = c.HandlerNotifOn
		p.Plugin.HandlerNotif = c.HandlerNotif
		p.Plugin.SleepNs = map[string]int64{"upd": c.SleepUpdNs, "est": c.SleepEstNs}
		if c.End == "rst" {
			p.Plugin.SpinUs = map[string]int64{"upd": 300}
		}
		if c.Echo {
			p.Plugin.WriteInUpd = []hx.Hex{hx.Hex(taggedUpdate(0xE1000000, 23)), hx.Hex(taggedUpdate(0xE1000001, 0))}
		}
		var dev *hx.Dev
		fail := func(key, f string, a ...any) {
			if dev == nil {
				dev = hx.Devf(key, f, a...)
			}
		}
		o, serr := world.SinglePrev(t, "10.0.0.1", p, c.Out, nil, c.Prev, func(w *world.World, conn *memnet.Conn) {
			evBase := 0
			for i, e := range w.Rec.Events() {
				if e.K == "close-" {
					evBase = i + 1 // the earlier sessions' events
				}
			}
			var stream []byte
			open := world.RemoteOpen(p, conn, rhold, 0x0a000002).Frame()
			if c.ShareHandshake && c.ShareOpen {
				stream = append(stream, open...)
			} else {
				conn.RemoteSend(open, nil)
				w.Settle()
			}
			if c.ShareHandshake {
				stream = append(stream, wire.Keepalive()...)
			} else {
				conn.RemoteSend(wire.Keepalive(), nil)
				w.Advance(time.Duration(c.SleepEstNs) + time.Millisecond)
			}
			var sent [][]byte
			for i, m := range c.Msgs {
				if m < 0 {
					stream = append(stream, wire.Keepalive()...)
					continue
				}
				b := taggedUpdate(uint32(0xE0000000+i), m)
				sent = append(sent, b)
				stream = append(stream, wire.Frame(wire.TypeUpdate, b)...)
			}
			cuts := c.Cuts
			if c.ShareHandshake && c.ShareOpen {
				// cuts were drawn relative to the stream without the OPEN
				cuts = nil
				for _, k := range c.Cuts {
					cuts = append(cuts, k+len(open))
				}
				cuts = append([]int{len(open) / 2}, cuts...)
			}
			conn.RemoteSend(stream, cuts)
			if c.End == "fin" {
				conn.RemoteClose()
			}
			if c.End == "rst" {
				// the connection is reset while the (busy-waiting) handler is at work: whatever
				// is delivered after that is still a prefix of what was sent, and nothing
				// follows a call that returned a Notification
				memnet.Spin(120)
				conn.RemoteReset()
			}
			if c.SleepUpdNs >= int64(time.Second) {
				// a handler slower than the hold time: stop observing right after
				// the last call returns (the scripted remote then stays silent, so
				// a hold time later the session would end legitimately)
				w.Advance(time.Duration(c.SleepEstNs) + time.Duration(len(sent))*time.Duration(c.SleepUpdNs) + time.Millisecond)
			} else {
				w.Advance(time.Duration(c.SleepEstNs) + time.Duration(len(c.Msgs)+1)*time.Duration(c.SleepUpdNs) + time.Millisecond)
			}

			evs := w.Rec.Events()[evBase:]
			var got [][]byte
			var estExit, closeEnter int64 = -1, -1
			nEst, nClose := 0, 0
			inUpd := false
			for _, e := range evs {
				switch e.K {
				case "est+":
					nEst++
				case "est-":
					estExit = e.Seq
				case "close+":
					nClose++
					if closeEnter < 0 {
						closeEnter = e.Seq
					}
					if inUpd {
						fail("onclose-during-handler", "OnClose began while the update handler was running")
					}
				case "upd+":
					if inUpd {
						fail("handler-overlap", "two update handler calls overlap")
					}
					inUpd = true
					if estExit < 0 {
						fail("delivered-before-established", "an UPDATE was delivered before OnEstablished returned")
					}
					if closeEnter >= 0 {
						fail("delivered-after-close", "an UPDATE was delivered after OnClose began")
					}
					got = append(got, e.Data)
				case "upd-":
					inUpd = false
				}
			}
			if c.End == "rst" && nEst == 0 {
				// the reset overtook the handshake: nothing can have been delivered
				if len(got) != 0 {
					fail("delivered-before-established", "%d UPDATEs were delivered although the session was never Established", len(got))
				}
				return
			}
			if nEst != 1 {
				fail("not-established", "OnEstablished fired %d times", nEst)
				return
			}
			want := sent
			if c.HandlerNotifOn > 0 && c.HandlerNotifOn <= len(sent) {
				want = sent[:c.HandlerNotifOn]
			}
			if c.End == "rst" {
				if len(got) > len(want) {
					fail("delivered-after-handler-notification", "%d UPDATEs reached the handler, the call for UPDATE %d had returned a Notification (the connection was reset meanwhile)", len(got), len(want))
					return
				}
				for i := range got {
					if !bytes.Equal(got[i], want[i]) {
						fail("delivery-content", "UPDATE %d delivered as %d bytes %x, sent %d bytes %x", i, len(got[i]), clip(got[i]), len(want[i]), clip(want[i]))
						return
					}
				}
				if st := conn.Snapshot(); !st.LocalClosed || nClose != 1 {
					fail("rst-session-not-ended", "after the remote's reset: closed=%v OnClose x%d", st.LocalClosed, nClose)
				}
				return
			}
			if len(got) != len(want) {
				fail("delivery-count", "%d UPDATEs sent (%d expected at the handler), %d delivered", len(sent), len(want), len(got))
				return
			}
			for i := range want {
				if !bytes.Equal(got[i], want[i]) {
					fail("delivery-content", "UPDATE %d delivered as %d bytes %x, sent %d bytes %x", i, len(got[i]), clip(got[i]), len(want[i]), clip(want[i]))
					return
				}
			}
			if s := w.RetainedIntact(); s != "" {
				fail("delivered-slice-modified", "%s", s)
				return
			}
			msgs, perr := world.Parsed(conn)
			if perr != nil {
				fail("malformed-output", "%v", perr)
				return
			}
			st := conn.Snapshot()
			if c.HandlerNotifOn > 0 && c.HandlerNotifOn <= len(sent) {
				last := msgs[len(msgs)-1]
				n, _ := wire.ParseNotif(last.Body)
				if last.Type != wire.TypeNotification || n.Code != c.HandlerNotif.Code || n.Sub != c.HandlerNotif.Sub || !bytes.Equal(n.Data, c.HandlerNotif.Data) {
					fail("handler-notif-not-verbatim", "handler returned (%d,%d,%x); last message on the wire is type %d %v", c.HandlerNotif.Code, c.HandlerNotif.Sub, clip(c.HandlerNotif.Data), last.Type, n)
					return
				}
				if !st.LocalClosed || nClose != 1 {
					fail("handler-notif-session-not-ended", "after the handler's Notification: closed=%v OnClose x%d", st.LocalClosed, nClose)
				}
				return
			}
			if c.End == "fin" {
				if !st.LocalClosed || nClose != 1 {
					fail("fin-session-not-ended", "after the remote's close: closed=%v OnClose x%d", st.LocalClosed, nClose)
				}
				return
			}
			if st.LocalClosed || nClose != 0 {
				fail("session-ended", "session ended unexpectedly: closed=%v OnClose x%d, last message type %v", st.LocalClosed, nClose, firstType(msgs[max(len(msgs)-1, 0):]))
			}
		})
		if serr != nil {
			fail("setup", "%v", serr)
		}
		if b := o.Bad(); b != "" {
			fail("wedge", "%s", b)
		}
		v.Dev = dev
		return v
	}
}

func genC03(rt *rapid.T) c03Case {
	c := c03Case{Out: rapid.Bool().Draw(rt, "out"), ShareHandshake: rapid.Bool().Draw(rt, "share")}
	if c.ShareHandshake {
		c.ShareOpen = rapid.Bool().Draw(rt, "shareopen")
	}
	n := pick(rt, "nmsgs", 1, 2, 3, 5, rapid.IntRange(1, 40).Draw(rt, "nmsgsr"))
	total := 0
	if c.ShareHandshake {
		total += 19
	}
	big := 0
	for i := 0; i < n; i++ {
		m := pick(rt, "mlen", -1, 0, 1, 2, 3, 4, 18, 19, 20, 255, 256, 4076, 4077, rapid.IntRange(0, 4077).Draw(rt, "mlenr"), rapid.IntRange(0, 64).Draw(rt, "mlens"))
		if m > 300 {
			big++
			if big > 3 {
				m %= 300
			}
		}
		c.Msgs = append(c.Msgs, m)
		total += 19
		if m > 0 {
			total += m
		}
	}
	c.Cuts = genCuts(rt, total)
	if rapid.IntRange(0, 3).Draw(rt, "notif") == 0 {
		c.HandlerNotifOn = rapid.IntRange(1, n).Draw(rt, "notifon")
		dl := pick(rt, "ndl", 0, 1, 2, 21, 255, 4074, 4075) // 4075: the largest data a message can hold (seeded change C03w)
		c.HandlerNotif = &world.NotifSpec{Code: pick[uint8](rt, "ncode", 3, 6, rapid.Byte().Draw(rt, "ncoder")), Sub: rapid.Byte().Draw(rt, "nsub"), Data: genBytesN(rt, "ndata", dl)}
	}
	if rapid.IntRange(0, 2).Draw(rt, "sleep") == 0 {
		c.SleepUpdNs = pick[int64](rt, "sleepupd", 1, 1000, 1000000)
	}
	if rapid.IntRange(0, 3).Draw(rt, "sleepest") == 0 {
		c.SleepEstNs = pick[int64](rt, "sleepestv", 1, 1000000)
	}
	if rapid.IntRange(0, 3).Draw(rt, "end") == 0 {
		c.End = pick(rt, "endkind", "fin", "fin", "rst")
	}
	if rapid.IntRange(0, 3).Draw(rt, "withprev") == 0 {
		for i, n := 0, rapid.IntRange(1, 2).Draw(rt, "nprev"); i < n; i++ {
			c.Prev = append(c.Prev, world.PrevSession{Hold: pick[uint16](rt, "prevhold", 0, 3, 90), End: pick(rt, "prevend", "fin", "cease", "cease+junk"), In: rapid.IntRange(0, 2).Draw(rt, "previn") == 0})
		}
		c.SleepEstNs = 0 // (a sleeping OnEstablished would also hold up the earlier sessions' scripted ends)
	}
	c.Echo = rapid.IntRange(0, 3).Draw(rt, "echo") == 0
	// negotiated hold time: 0 (no timers; KEEPALIVEs from the remote are still tolerated), small, default
	switch rapid.IntRange(0, 5).Draw(rt, "holdkind") {
	case 0:
		h := 0
		c.LocalHold = &h
	case 1:
		h := uint16(0)
		c.RemoteHold = &h
	case 2:
		h, rh := pick(rt, "lhold", 3, 9, 30), pick[uint16](rt, "rhold", 3, 6, 180)
		c.LocalHold, c.RemoteHold = &h, &rh
		if rapid.IntRange(0, 2).Draw(rt, "slowhandler") == 0 {
			// every handler call outlasts the negotiated hold time; the
			// messages are all in the socket already, so nothing is overdue
			c.SleepUpdNs = int64(min(h, int(rh)))*int64(time.Second) + int64(500*time.Millisecond)
		}
	}
	return c
}

func TestC03(t *testing.T) {
	r := hx.Start(t, "C03")
	defer r.Finish(t)
	hx.Rapid(r, t, "update_delivery", r.N(5000, 50000), genC03, c03Prop(t, r))
	// the handler's Notification while plugin goroutines write UPDATEs on the same connection
	// (slow, serialised writes; C08's machinery): it reaches the wire verbatim, whole and once
	hx.Rapid(r, t, "handler_notification_while_writing", r.N(150, 2000), func(rt *rapid.T) c08Busy {
		c := genC08Busy(rt)
		c.Fault = "handler"
		return c
	}, c08BusyProp(t, r, "handler_notification_while_writing"))
}
