package props

import (
	"fmt"
	"testing"
	"time"

	"github.com/jwhited/corebgp"
	"pgregory.net/rapid"

	"verif/sim/hx"
	"verif/sim/memnet"
	"verif/sim/wire"
	"verif/sim/world"
)

// C14 - the OPEN corebgp sends reflects configuration and plugin capabilities.

type c14Case struct {
	RouterID string     `json:"router_id"`
	LocalAS  uint32     `json:"local_as"`
	Hold     int        `json:"hold"`
	Out      bool       `json:"out"`
	Caps     []wire.Cap `json:"caps"`
	// Prev: earlier sessions of the same peer (outbound: the same FSM object), each
	// with its own remote hold time: the OPEN of the connection under test must
	// read as if they had never happened
	Prev []world.PrevSession `json:"prev,omitempty"`
	// Shared: the plugin hands out one and the same slice (with spare capacity)
	// from every GetCapabilities call; the encoder sub-check encodes it twice
	Shared bool `json:"shared,omitempty"`
	// Mutate (with Shared, wire sub-check only): the plugin changes the values in that slice
	// in place between calls; every OPEN carries what its own GetCapabilities call returned
	Mutate bool `json:"mutate,omitempty"`
}

// c14Expect computes the capability list the OPEN must carry and whether it
// can be represented in a single capabilities parameter.
func c14Expect(c c14Case) (want []wire.Cap, representable bool, total int) {
	want = []wire.Cap{wire.Cap4(c.LocalAS)}
	representable = true
	for _, cp := range c.Caps {
		if cp.Code == 65 {
			continue
		}
		want = append(want, cp)
	}
	for _, cp := range want {
		if len(cp.Value) > 255 {
			representable = false
		}
		total += 2 + len(cp.Value)
	}
	if total > 253 { // 255 octets of optional parameters minus the parameter header
		representable = false
	}
	return
}

// c14CheckOpen judges one OPEN body against the configuration.
func c14CheckOpen(c c14Case, body []byte, want []wire.Cap) *hx.Dev {
	o, err := wire.ParseOpenStrict(body)
	if err != nil {
		return hx.Devf("open-malformed", "corebgp put a malformed OPEN on the wire: %v (%x)", err, clip(body))
	}
	as2 := uint16(c.LocalAS)
	if c.LocalAS > 65535 {
		as2 = wire.ASTrans
	}
	if o.Version != 4 || o.AS2 != as2 || int(o.Hold) != c.Hold || o.ID != ipToU32(c.RouterID) {
		return hx.Devf("open-fixed-fields", "OPEN carries version=%d as=%d hold=%d id=%s, configured as=%d(2-octet %d) hold=%d id=%s", o.Version, o.AS2, o.Hold, u32ToIP(o.ID), c.LocalAS, as2, c.Hold, c.RouterID)
	}
	for _, p := range o.Params {
		if p.Type != 2 {
			return hx.Devf("open-param-type", "OPEN carries an optional parameter of type %d", p.Type)
		}
	}
	if !sameCaps(o.AllCaps(), want) {
		return hx.Devf("open-capabilities", "OPEN carries capabilities %v, want %v", capShape(o.AllCaps()), capShape(want))
	}
	return nil
}

func capShape(cs []wire.Cap) string {
	s := ""
	for _, c := range cs {
		s += fmt.Sprintf("%d:%d ", c.Code, len(c.Value))
	}
	return s
}

func c14Verdict(c c14Case) (hx.Verdict, []wire.Cap, bool) {
	want, rep, total := c14Expect(c)
	has65 := false
	for _, cp := range c.Caps {
		if cp.Code == 65 {
			has65 = true
		}
	}
	near := false
	for _, b := range []int{253, 255, 256} {
		if total >= b-8 && total <= b+8 {
			near = true
		}
	}
	for _, cp := range c.Caps {
		if len(cp.Value) >= 250 && len(cp.Value) <= 262 {
			near = true
		}
	}
	v := hx.Verdict{Class: fmt.Sprintf("rep=%v/as4=%v/has65=%v/near=%v", rep, c.LocalAS > 65535, has65, near)}
	if (len(c.Caps) >= 1 && near) || has65 || c.LocalAS > 65535 {
		v.NT = fmt.Sprintf("%d/%d/%s/%s", c.LocalAS, c.Hold, c.RouterID, capShape(c.Caps))
	}
	return v, want, rep
}

// c14EncoderProp drives the OPEN encoder through the export shim (no FSM).
func c14EncoderProp(c c14Case) hx.Verdict {
	v, want, rep := c14Verdict(c)
	caps := capsToCore(c.Caps)
	if c.Shared {
		// the caller keeps its slice (which has spare capacity) and encodes it again:
		// the second OPEN must read like the first
		caps = append(make([]corebgp.Capability, 0, len(caps)+3), caps...)
		corebgp.VerifNewOpen(c.LocalAS, time.Duration(c.Hold)*time.Second, ipToU32(c.RouterID), caps) // nolint: errcheck
	}
	enc, err := corebgp.VerifNewOpen(c.LocalAS, time.Duration(c.Hold)*time.Second, ipToU32(c.RouterID), caps)
	if err != nil {
		if rep {
			v.Dev = hx.Devf("open-encode-refused", "encoder refused a representable capability list: %v", err)
		}
		return v
	}
	msgs, perr := wire.ParseStream(enc)
	if perr != nil || len(msgs) != 1 || msgs[0].Type != wire.TypeOpen {
		key := "open-frame-malformed"
		if !rep {
			key = "open-length-wrap"
		}
		v.Dev = hx.Devf(key, "encoder output is not one well-formed OPEN frame: %v", perr)
		return v
	}
	if d := c14CheckOpen(c, msgs[0].Body, want); d != nil {
		if !rep {
			d.Key = "open-length-wrap"
			d.Msg = "unrepresentable capability list (a value > 255 bytes or > 253 bytes in all): " + d.Msg
		}
		v.Dev = d
	}
	return v
}

// c14WireProp runs the real FSM and inspects the connection's byte stream.
func c14WireProp(t *testing.T, r *hx.Run) func(c c14Case) hx.Verdict {
	return func(c c14Case) hx.Verdict {
		r.SetCurrent("open_on_wire", c)
		v, want, rep := c14Verdict(c)
		p := world.PeerSpec{Remote: "10.0.0.2", LocalAS: c.LocalAS, RemoteAS: 64513, Passive: !c.Out, Hold: c.Hold,
			Plugin: world.PluginSpec{Caps: c.Caps, NoNonce: true, SharedCaps: c.Shared, MutateShared: c.Shared && c.Mutate}}
		var dev *hx.Dev
		prev := c.Prev
		if !rep {
			prev = nil // no OPEN is sent at all: there are no earlier sessions
		}
		o, serr := world.SinglePrev(t, c.RouterID, p, c.Out, nil, prev, func(w *world.World, conn *memnet.Conn) {
			st := conn.Snapshot()
			msgs, perr := wire.ParseStream(st.Bytes())
			switch {
			case perr != nil:
				key := "open-frame-malformed"
				if !rep {
					key = "open-length-wrap"
				}
				dev = hx.Devf(key, "byte stream on the connection is not whole messages: %v", perr)
			case len(msgs) == 0:
				if rep {
					dev = hx.Devf("open-not-sent", "no OPEN was sent for a representable capability list (closed=%v)", st.LocalClosed)
				} else if !st.LocalClosed {
					dev = hx.Devf("open-unrepresentable-conn-left-open", "nothing sent for an unrepresentable list, but the connection was left open")
				}
			default:
				if msgs[0].Type != wire.TypeOpen {
					dev = hx.Devf("first-message-not-open", "first message has type %d", msgs[0].Type)
					break
				}
				cc := c
				if c.Shared && c.Mutate && rep {
					// what the latest GetCapabilities call returned (seeded change C14w)
					evs := w.Rec.Events()
					for i := len(evs) - 1; i >= 0; i-- {
						if evs[i].K == "caps-" {
							cc.Caps = evs[i].Caps
							break
						}
					}
					want, _, _ = c14Expect(cc)
				}
				if d := c14CheckOpen(cc, msgs[0].Body, want); d != nil {
					if !rep {
						d.Key = "open-length-wrap"
						d.Msg = "unrepresentable capability list: " + d.Msg
					}
					dev = d
				}
			}
		})
		if serr != nil && dev == nil {
			dev = hx.Devf("setup", "%v", serr)
		}
		if b := o.Bad(); b != "" && dev == nil {
			dev = hx.Devf("wedge", "%s", b)
		}
		v.Dev = dev
		return v
	}
}

func genC14(rt *rapid.T) c14Case {
	c := c14Case{
		RouterID: genRouterID(rt),
		LocalAS:  genAS(rt, "las"),
		Hold:     pick(rt, "hold", 0, 3, 90, 65535, rapid.IntRange(3, 65535).Draw(rt, "holdr")),
		Out:      rapid.Bool().Draw(rt, "out"),
	}
	// steer the total size (including the implicit 6-byte capability) to the boundaries
	target := pick(rt, "target", -1, -1, 251, 252, 253, 254, 255, 256, 259, 600)
	n := rapid.IntRange(0, 40).Draw(rt, "ncaps")
	total := 6
	for i := 0; i < n; i++ {
		var code uint8
		if rapid.IntRange(0, 6).Draw(rt, "c65") == 0 {
			code = 65
		} else {
			code = rapid.Byte().Draw(rt, "code")
		}
		vl := pick(rt, "vlen", 0, 1, 4, 4, 8, 200, 253, 254, 255, 256, 300, rapid.IntRange(0, 300).Draw(rt, "vlenr"))
		if target < 0 && vl > 60 && rapid.IntRange(0, 3).Draw(rt, "keepbig") != 0 {
			vl %= 20
		}
		if target >= 0 && code != 65 {
			if total+2+vl > target || i == n-1 {
				vl = target - total - 2
				if vl < 0 {
					break
				}
				if vl > 300 {
					vl = 300
				}
			}
		}
		cp := wire.Cap{Code: code, Value: genBytesN(rt, "cval", vl)}
		c.Caps = append(c.Caps, cp)
		if code != 65 {
			total += 2 + vl
		}
	}
	if rapid.IntRange(0, 2).Draw(rt, "withprev") == 0 {
		for i, n := 0, rapid.IntRange(1, 2).Draw(rt, "nprev"); i < n; i++ {
			c.Prev = append(c.Prev, world.PrevSession{Hold: pick[uint16](rt, "prevhold", 0, 3, 30, 180), End: pick(rt, "prevend", "fin", "cease", "cease+junk", "handler-cease"), In: rapid.IntRange(0, 2).Draw(rt, "previn") == 0})
		}
	}
	c.Shared = rapid.IntRange(0, 2).Draw(rt, "shared") == 0
	if c.Shared && len(c.Prev) > 0 {
		// only when one FSM object makes all the calls (a passive peer, or outbound earlier
		// sessions before an outbound one): two FSMs of a peer may call concurrently
		one := true
		for _, p := range c.Prev {
			if c.Out && p.In {
				one = false
			}
		}
		c.Mutate = one && rapid.Bool().Draw(rt, "mutate")
	}
	return c
}

func TestC14(t *testing.T) {
	r := hx.Start(t, "C14")
	defer r.Finish(t)
	hx.Rapid(r, t, "open_encoder", r.N(40000, 400000), genC14, c14EncoderProp)
	// several OPENs built at the same time, as the FSM goroutines of several peers do
	hx.Rapid(r, t, "concurrent_encoders", r.N(300, 3000), genConc(genC14, 2, 6, 40), concProp(c14EncoderProp))
	hx.Rapid(r, t, "open_on_wire", r.N(6000, 60000), genC14, c14WireProp(t, r))
}
