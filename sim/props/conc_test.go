package props

import (
	"fmt"
	"strings"
	"sync"

	"pgregory.net/rapid"

	"verif/sim/hx"
)

// Concurrent use of the pure entry points. corebgp calls its codecs from one
// goroutine per connection, and a plugin decodes UPDATEs in one handler per
// peer: values of their own, receivers of their own, decoders of their own -
// and yet at the same time. Every single evaluation must come out as it does
// alone; the oracle is the sequential property itself.

type concCases[C any] struct {
	Cases []C `json:"cases"`
	Reps  int `json:"reps"`
}

func concProp[C any](prop func(C) hx.Verdict) func(concCases[C]) hx.Verdict {
	return func(cc concCases[C]) hx.Verdict {
		v := hx.Verdict{Class: fmt.Sprintf("goroutines=%d", len(cc.Cases))}
		devs := make([]*hx.Dev, len(cc.Cases))
		nts := make([]string, len(cc.Cases))
		var wg sync.WaitGroup
		for i, c := range cc.Cases {
			wg.Add(1)
			go func() {
				defer wg.Done()
				for k := 0; k < cc.Reps; k++ {
					one := prop(c)
					nts[i] = one.NT
					if one.Dev != nil {
						devs[i] = one.Dev
						return
					}
				}
			}()
		}
		wg.Wait()
		nt := 0
		for _, s := range nts {
			if s != "" {
				nt++
			}
		}
		if nt >= 2 {
			v.NT = strings.Join(nts, "|")
		}
		for _, d := range devs {
			if d != nil {
				d.Msg = fmt.Sprintf("with %d evaluations running concurrently: %s", len(cc.Cases), d.Msg)
				v.Dev = d
				break
			}
		}
		return v
	}
}

func genConc[C any](gen func(*rapid.T) C, lo, hi, reps int) func(*rapid.T) concCases[C] {
	return func(rt *rapid.T) concCases[C] {
		cc := concCases[C]{Reps: reps}
		for i, n := 0, rapid.IntRange(lo, hi).Draw(rt, "ngoroutines"); i < n; i++ {
			cc.Cases = append(cc.Cases, gen(rt))
		}
		return cc
	}
}
