package props

import (
	"bytes"
	"fmt"
	"iter"
	"sort"
	"testing"
	"time"

	"pgregory.net/rapid"

	"verif/sim/hx"
	"verif/sim/memnet"
	"verif/sim/wire"
	"verif/sim/world"
)

// C06 - hold time negotiation, hold-timer expiry and keepalive cadence.

type c06Step struct {
	DtNs int64  `json:"dt_ns"` // time since the previous step (or since establishment)
	Kind string `json:"kind"`  // "K" remote KEEPALIVE, "U" remote UPDATE, "W" local WriteUpdate
}

// c06Prev is an earlier session of the same peer, ended without damping.
type c06Prev struct {
	RemoteHold uint16 `json:"remote_hold"`
	End        string `json:"end"` // fin, cease
}

type c06Case struct {
	Prev       []c06Prev `json:"prev,omitempty"`
	LocalHold  int       `json:"local_hold"`
	RemoteHold uint16    `json:"remote_hold"`
	Out        bool      `json:"out"`
	OpenConf   bool      `json:"open_confirm"` // the remote stays silent after its OPEN
	Steps      []c06Step `json:"steps,omitempty"`
	Pattern    string    `json:"pattern"`
	NilHandler bool      `json:"nil_handler,omitempty"` // OnEstablished returns a nil UpdateMessageHandler
	OCGapNs    int64     `json:"oc_gap_ns,omitempty"`   // time the remote lets pass in OpenConfirm before its first KEEPALIVE (< H)
	HandlerNs  int64     `json:"handler_ns,omitempty"`  // virtual time every update handler call takes (may exceed H while the remote keeps talking)
}

func (c c06Case) H() time.Duration {
	h := c.LocalHold
	if int(c.RemoteHold) < h {
		h = int(c.RemoteHold)
	}
	return time.Duration(h) * time.Second
}

func c06Prop(t *testing.T, r *hx.Run, sub string) func(c c06Case) hx.Verdict {
	return func(c c06Case) hx.Verdict {
		r.SetCurrent(sub, c)
		H := c.H()
		v := hx.Verdict{Class: fmt.Sprintf("H=%s/%s/openconfirm=%v/prev=%d", hClass(H), c.Pattern, c.OpenConf, len(c.Prev))}
		p := basePeer(c.Out)
		p.Hold = c.LocalHold
		p.Plugin.NilHandler = c.NilHandler
		if c.HandlerNs > 0 {
			p.Plugin.SleepNs = map[string]int64{"upd": c.HandlerNs}
		}
		var dev *hx.Dev
		fail := func(key, f string, a ...any) {
			if dev == nil {
				dev = hx.Devf(key, f, a...)
			}
		}
		timerEvent := false
		p.IdleHoldMs, p.ConnRetryMs = 100, 1000
		var serr error
		o := world.Run(t, func() {
			w, err := world.New("10.0.0.1", nil)
			if err != nil {
				serr = err
				return
			}
			defer w.Finish()
			if c.Out {
				w.Net.SetPlans(p.RemoteAddr(), memnet.DialPlan{Kind: memnet.Accept})
			}
			if err := w.AddPeer(p); err != nil {
				serr = err
				return
			}
			w.Serve()
			w.Settle()
			getConn := func(k int) *memnet.Conn {
				if !c.Out {
					cn := w.Inbound(p.Remote, "10.0.0.1")
					w.Settle()
					return cn
				}
				if !w.Net.WaitDials(k+1, 5*time.Second) {
					return nil
				}
				w.Settle()
				return w.Net.Dials()[k].Conn
			}
			// earlier sessions of the same peer, each ended by a TCP close or a Cease
			for k, pv := range c.Prev {
				cn := getConn(k)
				if cn == nil {
					fail("setup", "no connection for earlier session %d", k)
					return
				}
				world.Handshake(w, p, cn, pv.RemoteHold, 0x0a000002)
				if w.Sessions(p.Remote) != k+1 {
					fail("not-established", "earlier session %d (remote hold %d, local %d) did not establish", k, pv.RemoteHold, c.LocalHold)
					return
				}
				if pv.End == "cease" {
					cn.RemoteSend(wire.Notif{Code: 6, Sub: 4}.Frame(), nil)
					w.Settle()
				}
				cn.RemoteClose()
				w.Settle()
			}
			conn := getConn(len(c.Prev))
			if conn == nil {
				fail("setup", "no connection for the session under test")
				return
			}
			func() {
				// hold field of corebgp's OPEN
				pre, _ := world.Parsed(conn)
				if len(pre) != 1 || pre[0].Type != wire.TypeOpen {
					fail("setup", "no OPEN from corebgp")
					return
				}
				if op, err := wire.ParseOpenStrict(pre[0].Body); err != nil || int(op.Hold) != c.LocalHold {
					fail("open-hold-field", "corebgp's OPEN proposes hold %d, configured %d (%v)", op.Hold, c.LocalHold, err)
					return
				}
				// received[] = virtual times at which corebgp was handed something
				var received []time.Duration
				now := func() time.Duration { return w.Net.Since() }
				conn.RemoteSend(world.RemoteOpen(p, conn, c.RemoteHold, 0x0a000002).Frame(), nil)
				received = append(received, now())
				w.Settle()
				if !c.OpenConf {
					if c.OCGapNs > 0 {
						w.Advance(time.Duration(c.OCGapNs))
						if conn.Snapshot().LocalClosed {
							fail("expired-early", "H=%v: the connection was closed %v after the remote's OPEN, while the remote was still within the hold time in OpenConfirm", H, time.Duration(c.OCGapNs))
							return
						}
					}
					conn.RemoteSend(wire.Keepalive(), nil)
					received = append(received, now())
					w.Settle()
					est := 0
					for _, e := range w.Rec.Events() {
						if e.K == "est+" {
							est++
						}
					}
					if est != len(c.Prev)+1 {
						fail("not-established", "hold times local=%d remote=%d: session did not establish (OnEstablished x%d, want %d)", c.LocalHold, c.RemoteHold, est, len(c.Prev)+1)
						return
					}
				}
				ended := func() bool { return conn.Snapshot().LocalClosed }
				nUpd := 0
				var lastSentUpd []byte
				for _, s := range c.Steps {
					if c.OpenConf {
						break
					}
					time.Sleep(time.Duration(s.DtNs))
					w.Settle()
					if ended() {
						break
					}
					switch s.Kind {
					case "K":
						conn.RemoteSend(wire.Keepalive(), nil)
						received = append(received, now())
					case "U":
						lastSentUpd = taggedUpdate(uint32(0xF0000000+nUpd), 9)
						nUpd++
						conn.RemoteSend(wire.Frame(wire.TypeUpdate, lastSentUpd), nil)
						received = append(received, now())
					case "W":
						w.WriteUpdate(p.Remote, len(c.Prev), 1, taggedUpdate(0x77000000, 5))
					}
					w.Settle()
				}
				last := received[len(received)-1]
				// silence until well past the expiry point
				horizon := 3*H + 5*time.Second
				if H == 0 {
					horizon = time.Hour + 10*time.Minute
				}
				horizon += time.Duration(nUpd+1) * time.Duration(c.HandlerNs) // queued UPDATEs are handled one handler call at a time
				w.Advance(horizon)

				st := conn.Snapshot()
				msgs, perr := wire.ParseStream(st.Bytes())
				if perr != nil {
					fail("malformed-output", "%v", perr)
					return
				}
				// times of messages sent by corebgp: one Write per message is not
				// assumed - locate each message's last byte in the write log
				type sentMsg struct {
					at  time.Duration
					typ uint8
					n   wire.Notif
				}
				var sent []sentMsg
				{
					var ends []int // cumulative byte offsets of writes
					var ats []time.Duration
					off := 0
					for _, wr := range st.Writes {
						if wr.Failed {
							continue
						}
						off += len(wr.Data)
						ends = append(ends, off)
						ats = append(ats, wr.At)
					}
					for _, m := range msgs {
						endOff := m.Off + wire.HeaderLen + len(m.Body)
						i := sort.SearchInts(ends, endOff)
						sm := sentMsg{at: ats[i], typ: m.Type}
						if m.Type == wire.TypeNotification {
							sm.n, _ = wire.ParseNotif(m.Body)
						}
						sent = append(sent, sm)
					}
				}
				var expiry *sentMsg
				for i := range sent {
					if sent[i].typ == wire.TypeNotification && sent[i].n.Code == 4 {
						expiry = &sent[i]
					}
				}
				if H == 0 {
					if expiry != nil {
						fail("expired-with-zero-hold", "hold time 0 (local %d, remote %d): session expired at %v", c.LocalHold, c.RemoteHold, expiry.at)
						return
					}
					if st.LocalClosed {
						fail("closed-with-zero-hold", "hold time 0: connection closed at %v (last message type %d %v)", st.CloseAt, sent[len(sent)-1].typ, sent[len(sent)-1].n)
						return
					}
					ka := 0
					for _, s := range sent {
						if s.typ == wire.TypeKeepalive {
							ka++
						}
					}
					_ = nUpd
					if ka != 1 {
						fail("keepalives-with-zero-hold", "hold time 0: corebgp sent %d KEEPALIVEs over %v, want only the handshake one", ka, horizon)
						return
					}
					// still alive: an UPDATE sent now is delivered
					probe := taggedUpdate(0xF1000000, 6)
					conn.RemoteSend(wire.Frame(wire.TypeUpdate, probe), nil)
					w.Settle()
					ok := false
					for _, e := range w.Rec.Events() {
						if e.K == "upd+" && bytes.Equal(e.Data, probe) {
							ok = true
						}
					}
					if c.NilHandler {
						ok = !conn.Snapshot().LocalClosed // nothing observes the delivery
					}
					if !ok {
						fail("dead-with-zero-hold", "hold time 0: an UPDATE sent after %v of silence was not delivered", horizon)
					}
					timerEvent = true
					return
				}
				// H > 0
				if expiry == nil {
					fail("no-expiry", "H=%v: remote silent since %v, no Hold Timer Expired NOTIFICATION by %v (closed=%v)", H, last, w.Net.Since(), st.LocalClosed)
					return
				}
				timerEvent = true
				if expiry.at < last+H {
					fail("expired-early", "H=%v (local %d, remote %d): last message received at %v, Hold Timer Expired sent at %v (%v early)", H, c.LocalHold, c.RemoteHold, last, expiry.at, last+H-expiry.at)
					return
				}
				// a handler call that is still running when the remote goes silent postpones the
				// restart of the timer to its return
				lateFrom := last
				for _, e := range w.Rec.Events() {
					if e.K == "upd-" && e.T > lateFrom {
						lateFrom = e.T
					}
				}
				if expiry.at > lateFrom+H+time.Second {
					fail("expired-late", "H=%v: last message received at %v (last handler return at %v), Hold Timer Expired only at %v", H, last, lateFrom, expiry.at)
					return
				}
				if !st.LocalClosed || st.CloseAt > expiry.at+time.Second {
					fail("expiry-not-closed", "connection not closed after Hold Timer Expired (closed=%v at %v)", st.LocalClosed, st.CloseAt)
					return
				}
				if sent[len(sent)-1].typ != wire.TypeNotification || sent[len(sent)-1].n.Code != 4 {
					fail("message-after-expiry", "messages were sent after the Hold Timer Expired NOTIFICATION")
					return
				}
				nClose := 0
				for _, e := range w.Rec.Events() {
					if e.K == "close+" {
						nClose++
					}
				}
				if !c.OpenConf && nClose != len(c.Prev)+1 {
					fail("expiry-onclose", "OnClose fired %d times after expiry", nClose)
					return
				}
				// keepalive cadence: from the handshake KEEPALIVE to the end, no gap
				// between consecutive KEEPALIVE/UPDATE sends (and to the expiry)
				// longer than H/3 + max(100ms, H/30)
				slack := H / 30
				if slack < 100*time.Millisecond {
					slack = 100 * time.Millisecond
				}
				bound := H/3 + slack
				prev := time.Duration(-1)
				if c.HandlerNs > 0 {
					// the FSM goroutine sends the KEEPALIVEs and is inside the plugin's handler for
					// HandlerNs at a time: the cadence clause presumes prompt callbacks
					sent = nil
				}
				for _, s := range sent {
					if s.typ == wire.TypeOpen {
						continue
					}
					if prev >= 0 && s.at-prev > bound {
						fail("keepalive-gap", "H=%v: %v passed between consecutive messages sent by corebgp (at %v and %v), bound %v", H, s.at-prev, prev, s.at, bound)
						return
					}
					prev = s.at
				}
			}()
		})
		if serr != nil {
			fail("setup", "%v", serr)
		}
		if b := o.Bad(); b != "" {
			fail("wedge", "%s", b)
		}
		if timerEvent {
			v.NT = fmt.Sprintf("%d/%d/%v/%v/%v/%v", c.LocalHold, c.RemoteHold, c.Out, c.OpenConf, c.Steps, c.Prev)
		}
		v.Dev = dev
		return v
	}
}

func hClass(h time.Duration) string {
	switch {
	case h == 0:
		return "0"
	case h <= 9*time.Second:
		return "3-9s"
	case h <= 180*time.Second:
		return "10-180s"
	}
	return ">180s"
}

func genHold(rt *rapid.T, label string) int {
	return pick(rt, label, 0, 3, 3, 4, 5, 9, 10, 30, 90, 180, 65535, rapid.IntRange(3, 65535).Draw(rt, label+"r"), rapid.IntRange(3, 60).Draw(rt, label+"s"))
}

func genC06(rt *rapid.T) c06Case {
	c := c06Case{LocalHold: genHold(rt, "lhold"), RemoteHold: uint16(genHold(rt, "rhold")), Out: rapid.Bool().Draw(rt, "out"),
		NilHandler: rapid.IntRange(0, 3).Draw(rt, "nilhandler") == 0}
	if rapid.IntRange(0, 2).Draw(rt, "withprev") == 0 {
		for i, k := 0, rapid.IntRange(1, 2).Draw(rt, "nprev"); i < k; i++ {
			c.Prev = append(c.Prev, c06Prev{RemoteHold: uint16(genHold(rt, "prevhold")), End: pick(rt, "prevend", "fin", "cease")})
		}
	}
	H := c.H()
	if c.H() > 0 && !c.NilHandler && rapid.IntRange(0, 3).Draw(rt, "slowhandler") == 0 {
		c.HandlerNs = int64(pick(rt, "handlerns", c.H()/2, c.H()+c.H()/6, 2*c.H()+time.Millisecond))
	}
	if H > 0 && rapid.IntRange(0, 2).Draw(rt, "ocgap") == 0 {
		c.OCGapNs = int64(pick(rt, "ocgapv", H/3-time.Millisecond, H/3+time.Millisecond, H/2, H-time.Second, H-time.Millisecond))
		if c.OCGapNs < 0 {
			c.OCGapNs = 0
		}
	}
	if H > 0 && rapid.IntRange(0, 6).Draw(rt, "oc") == 0 {
		c.OCGapNs = 0
		c.OpenConf = true
		c.Pattern = "silent-openconfirm"
		return c
	}
	c.Pattern = pick(rt, "pattern", "silent", "keepalive-only", "update-only", "mixed", "just-before-expiry", "with-writes")
	if c.Pattern == "silent" {
		return c
	}
	base := H
	if H == 0 {
		base = 90 * time.Second
	}
	n := rapid.IntRange(1, 12).Draw(rt, "nsteps")
	for i := 0; i < n; i++ {
		var dt time.Duration
		switch c.Pattern {
		case "just-before-expiry":
			dt = pick(rt, "dt", base-time.Nanosecond, base-time.Second, base-time.Millisecond, base/3)
		default:
			dt = pick(rt, "dt", base/3, base/2, base-time.Second, base-time.Nanosecond, base/3-time.Nanosecond, base/3+time.Nanosecond,
				time.Duration(rapid.Int64Range(0, int64(base)-1).Draw(rt, "dtr")))
		}
		if dt < 0 {
			dt = 0
		}
		if dt >= base {
			dt = base - time.Nanosecond
		}
		kind := "K"
		switch c.Pattern {
		case "update-only":
			kind = "U"
		case "mixed", "just-before-expiry":
			kind = pick(rt, "kind", "K", "U")
		case "with-writes":
			kind = pick(rt, "kindw", "K", "U", "W", "W")
			if kind == "W" {
				dt = pick(rt, "dtw", base/3-time.Millisecond, base/6, base/3, time.Duration(rapid.Int64Range(0, int64(base)/2).Draw(rt, "dtwr")))
			}
		}
		c.Steps = append(c.Steps, c06Step{DtNs: int64(dt), Kind: kind})
	}
	// a local WriteUpdate does not reset the hold timer: keep the remote from
	// going silent for >= H through a run of W steps
	acc := time.Duration(0)
	for i, s := range c.Steps {
		if s.Kind == "W" {
			acc += time.Duration(s.DtNs)
			if acc >= base-time.Second {
				c.Steps[i].Kind = "K"
				acc = 0
			}
		} else {
			if acc+time.Duration(s.DtNs) >= base {
				c.Steps[i].DtNs = int64(base - acc - time.Nanosecond)
				if c.Steps[i].DtNs < 0 {
					c.Steps[i].DtNs = 0
				}
			}
			acc = 0
		}
	}
	return c
}

// ---- a local WriteUpdate at the very instant the keepalive timer fires

// The session is Established at virtual time 0 with hold time Hold, so corebgp's keepalive
// timer fires at Hold/3, 2 Hold/3, ... At each of the first len(AfterUs) instants a plugin
// goroutine calls WriteUpdate a drawn number of microseconds into the (slowed down) write of
// the timer's KEEPALIVE; the remote answers with a KEEPALIVE of its own each time. Whatever
// the interleaving of the two writes and of the timer's re-arming, corebgp never stays
// silent for longer than Hold/3 (+ slack) afterwards either.
type c06Tick struct {
	Hold    int     `json:"hold"`
	Out     bool    `json:"out"`
	SpinUs  int64   `json:"spin_us"`
	AfterUs []int64 `json:"after_us"`
}

func c06TickProp(t *testing.T, r *hx.Run, sub string) func(c c06Tick) hx.Verdict {
	return func(c c06Tick) hx.Verdict {
		r.SetCurrent(sub, c)
		H := time.Duration(c.Hold) * time.Second
		v := hx.Verdict{Class: fmt.Sprintf("H=%v/ticks=%d", H, len(c.AfterUs))}
		v.NT = fmt.Sprintf("%+v", c)
		p := basePeer(c.Out)
		p.Hold = c.Hold
		var dev *hx.Dev
		fail := func(key, f string, a ...any) {
			if dev == nil {
				dev = hx.Devf(key, f, a...)
			}
		}
		o, serr := world.Single(t, "10.0.0.1", p, c.Out, nil, func(w *world.World, conn *memnet.Conn) {
			world.Handshake(w, p, conn, uint16(c.Hold), 0x0a000002)
			if w.Sessions(p.Remote) != 1 {
				fail("setup", "session did not establish")
				return
			}
			w.Net.SetWriteSpin(c.SpinUs)
			for k, after := range c.AfterUs {
				time.Sleep(H / 3) // wakes at the instant the keepalive timer fires
				memnet.Spin(after)
				if _, err := w.WriteUpdate(p.Remote, 0, 1, taggedUpdate(uint32(0x7A000000+k), 6)); err != nil {
					fail("write-failed", "WriteUpdate on the Established session returned %v", err)
					return
				}
				conn.RemoteSend(wire.Keepalive(), nil)
				w.Settle()
			}
			w.Net.SetWriteSpin(0)
			for i := 0; i < 4; i++ {
				time.Sleep(H / 3)
				w.Settle()
				conn.RemoteSend(wire.Keepalive(), nil)
				w.Settle()
			}
			end := w.Net.Since()
			st := conn.Snapshot()
			msgs, perr := wire.ParseStream(st.Bytes())
			if perr != nil {
				fail("malformed-output", "%v", perr)
				return
			}
			if st.LocalClosed {
				fail("session-ended", "the session ended although the remote sent a KEEPALIVE every %v (last message type %v)", H/3, firstType(msgs[max(len(msgs)-1, 0):]))
				return
			}
			var ends []int
			var ats []time.Duration
			off := 0
			for _, wr := range st.Writes {
				if wr.Failed {
					continue
				}
				off += len(wr.Data)
				ends = append(ends, off)
				ats = append(ats, wr.At)
			}
			slack := max(H/30, 100*time.Millisecond)
			bound := H/3 + slack
			prev := time.Duration(-1)
			for _, m := range msgs {
				at := ats[sort.SearchInts(ends, m.Off+wire.HeaderLen+len(m.Body))]
				if m.Type == wire.TypeOpen {
					continue
				}
				if prev >= 0 && at-prev > bound {
					fail("keepalive-gap", "H=%v: %v passed between consecutive messages sent by corebgp (at %v and %v), bound %v; WriteUpdate was called at the first %d keepalive instants", H, at-prev, prev, at, bound, len(c.AfterUs))
					return
				}
				prev = at
			}
			if prev >= 0 && end-prev > bound {
				fail("keepalive-gap", "H=%v: nothing sent by corebgp between %v and the end of the observation at %v, bound %v", H, prev, end, bound)
			}
		})
		if serr != nil {
			fail("setup", "%v", serr)
		}
		if b := o.Bad(); b != "" {
			fail("wedge", "%s", b)
		}
		v.Dev = dev
		return v
	}
}

func TestC06(t *testing.T) {
	r := hx.Start(t, "C06")
	defer r.Finish(t)

	// sweep of remote hold values x local {0, 3, 90}: negotiation = min
	maxRemote := 40
	if !r.Quick() {
		maxRemote = 300
	}
	hx.Enum(r, t, "negotiation_sweep", 0, iter.Seq[c06Case](func(yield func(c06Case) bool) {
		for rh := 0; rh <= maxRemote; rh++ {
			if rh == 1 || rh == 2 {
				continue
			}
			for _, lh := range []int{0, 3, 90} {
				c := c06Case{LocalHold: lh, RemoteHold: uint16(rh), Out: (rh+lh)%2 == 0, Pattern: "silent"}
				if rh%3 == 0 {
					h := c.H()
					if h > 0 {
						c.Pattern = "keepalive-only"
						c.Steps = []c06Step{{int64(h - time.Nanosecond), "K"}, {int64(h / 3), "U"}}
					}
				}
				if !yield(c) {
					return
				}
			}
		}
	}), c06Prop(t, r, "negotiation_sweep"))

	hx.Rapid(r, t, "generated", r.N(8000, 80000), genC06, c06Prop(t, r, "generated"))
	hx.Rapid(r, t, "write_at_keepalive_instant", r.N(150, 2000), func(rt *rapid.T) c06Tick {
		c := c06Tick{Hold: pick(rt, "hold", 3, 6, 9, 30), Out: rapid.Bool().Draw(rt, "out"), SpinUs: pick[int64](rt, "spin", 100, 300)}
		for i, n := 0, rapid.IntRange(1, 5).Draw(rt, "nticks"); i < n; i++ {
			c.AfterUs = append(c.AfterUs, pick[int64](rt, "after", 0, 5, 20, 50, 120, 250))
		}
		return c
	}, c06TickProp(t, r, "write_at_keepalive_instant"))
}
