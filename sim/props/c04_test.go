package props

import (
	"fmt"
	"sync"
	"testing"
	"time"

	"pgregory.net/rapid"

	"verif/sim/hx"
	"verif/sim/memnet"
	"verif/sim/wire"
	"verif/sim/world"
)

// C04 - outbound byte stream is whole well-formed messages; WriteUpdate contract.

type c04Stats struct {
	kaBetween    bool // a timer KEEPALIVE between tagged UPDATEs of different goroutines on one connection
	overlapsDown bool // a WriteUpdate call overlapped the teardown of its session
	stale        bool // a call on a writer whose session had ended
	writes       int
}

type tagPos struct {
	conn, pos int
}

func c04Check(s script, tr *trace) (*hx.Dev, c04Stats) {
	var st c04Stats
	if b := tr.Outcome.Bad(); b != "" {
		return hx.Devf("wedge", "%s\n%s", b, tr.Dump), st
	}
	bad := func(key, f string, a ...any) (*hx.Dev, c04Stats) {
		return hx.Devf(key, f+"\n"+tr.Dump, a...), st
	}
	if len(tr.Dump) > 0 && tr.Dump[0] == 'W' {
		return bad("writeupdate-blocked", "WriteUpdate callers did not return")
	}
	// every connection's complete byte log is whole well-formed messages
	where := map[string][]tagPos{} // tagged body -> positions
	connMsgs := map[int][]wire.Msg{}
	for _, c := range tr.Conns {
		msgs, perr := wire.ParseStream(c.Bytes())
		if perr != nil {
			return bad("malformed-stream", "conn %d (peer %s): the bytes corebgp wrote are not a concatenation of whole well-formed messages: %v", c.ID, tr.ConnPeer[c.ID], perr)
		}
		connMsgs[c.ID] = msgs
		for i, m := range msgs {
			if m.Type == wire.TypeUpdate && len(m.Body) >= 16 && m.Body[0] == 0x5A {
				where[string(m.Body)] = append(where[string(m.Body)], tagPos{c.ID, i})
			}
		}
	}
	// sessions: est+ / close+ sequence numbers per (peer, session index)
	type sess struct{ est, closeEnter int64 }
	sessions := map[string]map[int]*sess{}
	for _, e := range tr.Events {
		if e.K == "est+" || e.K == "close+" {
			if sessions[e.Peer] == nil {
				sessions[e.Peer] = map[int]*sess{}
			}
			if e.K == "est+" {
				sessions[e.Peer][e.N] = &sess{est: e.Seq}
			} else if x := sessions[e.Peer][e.N]; x != nil {
				x.closeEnter = e.Seq
			}
		}
	}
	connCreated := map[int]int64{}
	for _, c := range tr.Conns {
		connCreated[c.ID] = c.CreatedS
	}
	sessConn := map[string]int{} // "peer/sess" -> conn id carrying that writer's messages
	bind := func(peer string, sn int, conn int, what string) *hx.Dev {
		key := fmt.Sprintf("%s/%d", peer, sn)
		if tr.ConnPeer[conn] != peer {
			return hx.Devf("write-on-other-peer", "%s written through a writer of peer %s appeared on connection %d of peer %s\n%s", what, peer, conn, tr.ConnPeer[conn], tr.Dump)
		}
		if prev, ok := sessConn[key]; ok && prev != conn {
			return hx.Devf("write-on-later-connection", "messages of writer %s appeared on two connections (%d and %d)\n%s", key, prev, conn, tr.Dump)
		}
		sessConn[key] = conn
		if x := sessions[peer][sn]; x != nil && connCreated[conn] > x.est {
			return hx.Devf("write-on-later-connection", "%s of writer %s appeared on connection %d, which was created after that session was Established\n%s", what, key, conn, tr.Dump)
		}
		return nil
	}
	// script writers
	type gkey struct {
		peer string
		sess int
		g    int64
	}
	lastPos := map[gkey]int{}
	seenBody := map[string]bool{}
	for _, wc := range tr.Writes {
		st.writes++
		pos := where[string(wc.Body)]
		x := sessions[wc.Peer][wc.Sess]
		if x != nil && x.closeEnter != 0 {
			if wc.CallSeq > x.closeEnter {
				st.stale = true
				if !wc.Err {
					return bad("write-after-close-succeeded", "WriteUpdate on writer %s/%d was called (#%d) after OnClose of that session began (#%d) and returned nil", wc.Peer, wc.Sess, wc.CallSeq, x.closeEnter)
				}
			} else if wc.RetSeq > x.closeEnter {
				st.overlapsDown = true
			}
		}
		if seenBody[string(wc.Body)] {
			continue // harness reuse of a tag (same burst, same goroutine index): not generated
		}
		seenBody[string(wc.Body)] = true
		if len(pos) > 1 {
			return bad("write-duplicated", "the body of one WriteUpdate call (%s/%d g%d #%d) appears %d times on the wire", wc.Peer, wc.Sess, wc.G, wc.Idx, len(pos))
		}
		if !wc.Err && len(pos) != 1 {
			return bad("write-lost", "WriteUpdate (%s/%d g%d idx %d, %d bytes) returned nil but its UPDATE is not on the wire", wc.Peer, wc.Sess, wc.G, wc.Idx, len(wc.Body))
		}
		if len(pos) == 1 {
			if d := bind(wc.Peer, wc.Sess, pos[0].conn, fmt.Sprintf("the UPDATE of call g%d idx %d", wc.G, wc.Idx)); d != nil {
				return d, st
			}
		}
	}
	// per goroutine: call order = wire order. tr.Writes is in completion order
	// per goroutine already (one goroutine issues its calls sequentially).
	perG := map[gkey][]writeCall{}
	for _, wc := range tr.Writes {
		k := gkey{wc.Peer, wc.Sess, wc.G}
		perG[k] = append(perG[k], wc)
	}
	for k, calls := range perG {
		last := -1
		lastIdx := -1
		for _, wc := range calls {
			if wc.Idx < lastIdx {
				continue
			}
			lastIdx = wc.Idx
			if pos := where[string(wc.Body)]; len(pos) == 1 {
				if pos[0].pos < last {
					return bad("write-reordered", "calls of goroutine g%d on writer %s/%d appear out of call order on the wire (idx %d at message %d, an earlier call at %d)", k.g, k.peer, k.sess, wc.Idx, pos[0].pos, last)
				}
				last = pos[0].pos
			}
		}
		_ = lastPos
	}
	// in-callback writes (recorded by the plugin as wu+/wu- events with G < 0)
	okCount := map[string]int{}
	for _, e := range tr.Events {
		if e.K != "wu-" || e.G >= 0 {
			continue
		}
		if e.G == -3 {
			if !e.Err {
				return bad("write-in-onclose-succeeded", "peer %s: WriteUpdate called from inside OnClose (session %d) returned nil", e.Peer, e.N)
			}
			continue
		}
		if !e.Err {
			okCount[string(e.Data)]++
		}
	}
	for body, n := range okCount {
		if len(where[body]) != n {
			return bad("callback-write-count", "%d WriteUpdate calls made from inside callbacks returned nil for one body, it appears %d times on the wire", n, len(where[body]))
		}
	}
	for body, pos := range where {
		if body[1] < byte(len(s.Peers)) && (body[2] == 0x23) { // 9000..9002 = 0x2328..0x232a: in-callback tags
			if len(pos) > 0 && okCount[body] == 0 && len(pos) > countErrWrites(tr, body) {
				return bad("callback-write-unexpected", "an in-callback body appears %d times on the wire without a matching successful call", len(pos))
			}
		}
	}
	// a wu+ without wu-: a callback write that never returned (deadlock)
	open := map[string]int{}
	for _, e := range tr.Events {
		if e.G >= 0 {
			continue
		}
		k := fmt.Sprintf("%s/%d/%d", e.Peer, e.N, e.G)
		if e.K == "wu+" {
			open[k]++
		} else if e.K == "wu-" {
			open[k]--
		}
	}
	for k, n := range open {
		if n != 0 {
			return bad("write-in-callback-blocked", "a WriteUpdate call made from inside a callback (%s) never returned", k)
		}
	}
	// non-triviality: a KEEPALIVE between tagged UPDATEs of different goroutines
	for _, msgs := range connMsgs {
		var prevG int64 = -99
		kaSince := false
		for _, m := range msgs {
			switch {
			case m.Type == wire.TypeKeepalive:
				kaSince = true
			case m.Type == wire.TypeUpdate && len(m.Body) >= 16 && m.Body[0] == 0x5A:
				g := int64(uint32(m.Body[4])<<24 | uint32(m.Body[5])<<16 | uint32(m.Body[6])<<8 | uint32(m.Body[7]))
				if prevG != -99 && g != prevG && kaSince {
					st.kaBetween = true
				}
				prevG = g
				kaSince = false
			}
		}
	}
	return nil, st
}

func countErrWrites(tr *trace, body string) int {
	n := 0
	for _, e := range tr.Events {
		if e.K == "wu-" && e.Err && string(e.Data) == body {
			n++
		}
	}
	return n
}

// genC04Script builds write-centred scripts: establish, several rounds of
// concurrent writers while the remote keeps the session alive and virtual time
// passes in steps of about a keepalive interval, a teardown overlapping
// writes, re-establishment, calls through the stale writer.
func genC04Script(rt *rapid.T) script {
	n := rapid.IntRange(1, 2).Draw(rt, "npeers")
	s := script{RouterID: "10.0.0.1"}
	prof := scriptProfile{writes: 1}
	s.Peers, s.Plans = genPeerSpecs(rt, n, prof)
	dirs := make([]string, n)
	for i := range s.Peers {
		s.Peers[i].Hold = pick(rt, "hold", 3, 6, 9, 0) // 0: no keepalive/hold timers at all
		s.Peers[i].IdleHoldMs = 1000
		s.Peers[i].ConnRetryMs = 2000
		dirs[i] = pick(rt, "dir", "in", "out")
		if dirs[i] == "out" {
			s.Peers[i].Passive = false
			s.Plans[i] = "accept"
		} else {
			s.Plans[i] = "refuse"
		}
		if rapid.IntRange(0, 5).Draw(rt, "spin") == 0 {
			s.Peers[i].Plugin.SpinUs = map[string]int64{pick(rt, "spincb", "est", "upd", "close"): 20}
		}
	}
	if rapid.IntRange(0, 3).Draw(rt, "delays") == 0 {
		s.Delays = []int64{0, 0, 0, 2, 0, 3, 0, 1}
	}
	establish := func(pi int) {
		if dirs[pi] == "in" {
			s.Bursts = append(s.Bursts, []act{{Op: "connect", P: pi}})
		}
		s.Bursts = append(s.Bursts, []act{{Op: "send", P: pi, Dir: dirs[pi], Msg: "open"}}, []act{{Op: "send", P: pi, Dir: dirs[pi], Msg: "keepalive"}})
	}
	writeAct := func(pi int, back int) act {
		h := int64(max(s.Peers[pi].Hold, 3)) * 1000000000
		return act{Op: "write", P: pi, Back: back, G: rapid.IntRange(1, 8).Draw(rt, "g"), N: rapid.IntRange(1, 8).Draw(rt, "n"),
			Len:   pick(rt, "wlen", 16, 19, 20, 255, 256, 4076, 4077, rapid.IntRange(16, 400).Draw(rt, "wlenr")),
			GapNs: pick[int64](rt, "gap", 0, 0, 1000, h/3-1, h/3, h/6, 1000000000)}
	}
	for i := range s.Peers {
		establish(i)
	}
	cycles := rapid.IntRange(1, 3).Draw(rt, "cycles")
	for c := 0; c < cycles; c++ {
		rounds := rapid.IntRange(1, 6).Draw(rt, "rounds")
		for k := 0; k < rounds; k++ {
			pi := rapid.IntRange(0, n-1).Draw(rt, "wp")
			b := []act{writeAct(pi, 0)}
			if rapid.Bool().Draw(rt, "second") {
				b = append(b, writeAct(rapid.IntRange(0, n-1).Draw(rt, "wp2"), 0))
			}
			// the remote keeps every session alive
			for i := range s.Peers {
				b = append(b, act{Op: "send", P: i, Dir: dirs[i], Msg: pick(rt, "alive", "keepalive", "update"), Len: 5})
			}
			h := int64(max(s.Peers[pi].Hold, 3)) * 1000000000
			b = append(b, act{Op: "advance", Ns: pick[int64](rt, "adv", h/3, h/3+1000000, h/3-1000000, h/2, 1000000, h-1000000)})
			s.Bursts = append(s.Bursts, b)
		}
		// teardown overlapping writers
		pi := rapid.IntRange(0, n-1).Draw(rt, "tp")
		td := pick(rt, "teardown", "rclose", "rreset", "notif", "magic", "del", "silence", "garbage")
		b := []act{}
		if rapid.Bool().Draw(rt, "writefirst") {
			b = append(b, writeAct(pi, 0))
		}
		switch td {
		case "rclose", "rreset":
			b = append(b, act{Op: td, P: pi, Dir: dirs[pi]})
		case "notif":
			b = append(b, act{Op: "send", P: pi, Dir: dirs[pi], Msg: "notif", Code: 6})
		case "magic":
			b = append(b, act{Op: "send", P: pi, Dir: dirs[pi], Msg: "magic", Code: 6})
		case "garbage":
			b = append(b, act{Op: "send", P: pi, Dir: dirs[pi], Msg: "garbage"})
		case "del":
			b = append(b, act{Op: "del", P: pi})
		case "silence":
			b = append(b, act{Op: "advance", Ns: int64(max(s.Peers[pi].Hold, 3))*1000000000 + 1000000})
			if s.Peers[pi].Hold == 0 {
				b = append(b, act{Op: "rclose", P: pi, Dir: dirs[pi]}) // silence does not end a zero-hold session
			}
		}
		b = append(b, writeAct(pi, 0))
		s.Bursts = append(s.Bursts, b)
		if td == "del" {
			s.Bursts = append(s.Bursts, []act{{Op: "add", P: pi}})
		}
		if td == "garbage" {
			// a protocol error damps the peer for 60 s
			s.Bursts = append(s.Bursts, []act{{Op: "advance", Ns: 61000000000}})
		} else {
			s.Bursts = append(s.Bursts, []act{{Op: "advance", Ns: 1100000000}})
		}
		// stale writer, then re-establish, then stale writer again
		s.Bursts = append(s.Bursts, []act{writeAct(pi, 0)})
		establish(pi)
		s.Bursts = append(s.Bursts, []act{writeAct(pi, 1), writeAct(pi, 0)})
	}
	return s
}

var c04Profile = scriptProfile{peers: 2, bursts: 24, writes: 14, api: 2, faults: 3, sleeps: true, holdShort: true}

func c04Prop(t *testing.T, r *hx.Run, sub string) func(s script) hx.Verdict {
	return func(s script) hx.Verdict {
		r.SetCurrent(sub, s)
		tr := runScript(t, s)
		dev, st := c04Check(s, tr)
		v := hx.Verdict{Dev: dev, Class: fmt.Sprintf("writes=%v/ka-between=%v/overlaps-teardown=%v/stale=%v", st.writes > 0, st.kaBetween, st.overlapsDown, st.stale)}
		if st.kaBetween || st.overlapsDown || st.stale {
			v.NT = fmt.Sprintf("%+v", s)
		}
		return v
	}
}

func TestC04(t *testing.T) {
	r := hx.Start(t, "C04")
	defer r.Finish(t)
	hx.Rapid(r, t, "writers", r.N(2000, 20000), genC04Script, c04Prop(t, r, "writers"))
	hx.Rapid(r, t, "churn_writers", r.N(1000, 10000), func(rt *rapid.T) script { return genScript(rt, c04Profile) }, c04Prop(t, r, "churn_writers"))
	hx.Rapid(r, t, "small_bodies_and_keepalives", r.N(300, 4000), genC04Small, c04SmallProp(t, r, "small_bodies_and_keepalives"))
	hx.Rapid(r, t, "stalled_reader", r.N(300, 6000), genC04Stall, c04StallProp(t, r, "stalled_reader"))
	// WriteUpdate from inside the update handler while the remote resets the connection under
	// it (C03's session machinery with an echoing handler): the call returns, with an error or
	// not, and the session ends
	hx.Rapid(r, t, "handler_writes_under_reset", r.N(300, 4000), func(rt *rapid.T) c03Case {
		c := genC03(rt)
		c.Echo, c.End = true, "rst"
		return c
	}, c03Prop(t, r, "handler_writes_under_reset"))
}

// ---- small (untagged) bodies next to KEEPALIVEs, with slow writes

// Bodies shorter than a tag - above all the empty body, which shares its
// length with a KEEPALIVE - are judged by counting: per connection, the
// multiset of UPDATE bodies on the wire equals the multiset of bodies whose
// WriteUpdate returned nil. Writes are slow (memnet.SetWriteSpin), so a
// message stays in the caller's buffer for a while before the network copies
// it, and the writers' gaps are the keepalive interval, so that KEEPALIVEs of
// this and of other sessions are encoded at the very same instants.
type c04SmallWriter struct {
	Peer  int   `json:"peer"`
	Lens  []int `json:"lens"`   // body length of each call (0..15)
	GapNs int64 `json:"gap_ns"` // virtual time between calls
	// Reuse: the caller builds each body in a buffer with room to spare and passes
	// the very same slice to WriteUpdate twice in a row: both UPDATEs carry what the
	// caller put there
	Reuse bool `json:"reuse,omitempty"`
}

type c04SmallCase struct {
	Holds   []int            `json:"holds"` // one Established session per entry
	Writers []c04SmallWriter `json:"writers"`
	SpinUs  int64            `json:"spin_us"`
	Secs    int              `json:"secs"`
}

func smallBody(wi, n int) []byte {
	b := make([]byte, n)
	for i := range b {
		b[i] = byte(0xA0 + wi) // never 0x5A
	}
	return b
}

func c04SmallProp(t *testing.T, r *hx.Run, sub string) func(c c04SmallCase) hx.Verdict {
	return func(c c04SmallCase) hx.Verdict {
		r.SetCurrent(sub, c)
		empties, kaSessions := 0, 0
		for _, w := range c.Writers {
			for _, l := range w.Lens {
				if l == 0 {
					empties++
				}
			}
		}
		for _, h := range c.Holds {
			if h != 0 {
				kaSessions++
			}
		}
		v := hx.Verdict{Class: fmt.Sprintf("sessions=%d/empty=%v/keepalives=%v/writers=%d", len(c.Holds), empties > 0, kaSessions > 0, min(len(c.Writers), 3))}
		if empties > 0 && (kaSessions > 0 || len(c.Writers) >= 2) {
			v.NT = fmt.Sprintf("%+v", c)
		}
		var dev *hx.Dev
		fail := func(key, f string, a ...any) {
			if dev == nil {
				dev = hx.Devf(key, f, a...)
			}
		}
		o := world.Run(t, func() {
			w, err := world.New("10.0.0.1", nil)
			if err != nil {
				fail("setup", "%v", err)
				return
			}
			defer w.Finish()
			specs := make([]world.PeerSpec, len(c.Holds))
			conns := make([]*memnet.Conn, len(c.Holds))
			for i, h := range c.Holds {
				specs[i] = world.PeerSpec{Remote: fmt.Sprintf("10.0.0.%d", 2+i), LocalAS: 64512, RemoteAS: uint32(64600 + i), Passive: true, Hold: h}
				if err := w.AddPeer(specs[i]); err != nil {
					fail("setup", "%v", err)
					return
				}
			}
			w.Serve()
			w.Settle()
			for i := range c.Holds {
				conns[i] = w.Inbound(specs[i].Remote, "10.0.0.1")
				w.Settle()
				world.Handshake(w, specs[i], conns[i], 90, 0x0a000002+uint32(i))
				if w.Sessions(specs[i].Remote) != 1 {
					fail("setup", "session %d did not establish", i)
					return
				}
			}
			w.Net.SetWriteSpin(c.SpinUs)
			// the remotes keep their sessions alive
			stop := make(chan struct{})
			var wg sync.WaitGroup
			for i, h := range c.Holds {
				if h == 0 {
					continue
				}
				wg.Add(1)
				go func() {
					defer wg.Done()
					tk := time.NewTicker(time.Duration(h) * time.Second / 3)
					defer tk.Stop()
					for {
						select {
						case <-stop:
							return
						case <-tk.C:
							conns[i].RemoteSend(wire.Keepalive(), nil)
						}
					}
				}()
			}
			type res struct {
				body []byte
				err  error
			}
			results := make([][]res, len(c.Writers))
			var wwg sync.WaitGroup
			for wi, wr := range c.Writers {
				uw := w.Writer(specs[wr.Peer].Remote, 0)
				if uw == nil {
					fail("setup", "no writer for session %d", wr.Peer)
					return
				}
				wwg.Add(1)
				go func() {
					defer wwg.Done()
					for k, l := range wr.Lens {
						if k > 0 && wr.GapNs > 0 {
							time.Sleep(time.Duration(wr.GapNs))
						}
						b := smallBody(wi, l)
						if wr.Reuse {
							own := append(make([]byte, 0, len(b)+40), b...)
							results[wi] = append(results[wi], res{b, uw.WriteUpdate(own)})
							results[wi] = append(results[wi], res{b, uw.WriteUpdate(own)})
							continue
						}
						results[wi] = append(results[wi], res{b, uw.WriteUpdate(b)})
					}
				}()
			}
			time.Sleep(time.Duration(c.Secs) * time.Second)
			wwg.Wait()
			close(stop)
			wg.Wait()
			w.Net.SetWriteSpin(0)
			w.Settle()
			for i := range c.Holds {
				st := conns[i].Snapshot()
				msgs, perr := wire.ParseStream(st.Bytes())
				if perr != nil {
					fail("malformed-stream", "session %d: the bytes corebgp wrote are not whole well-formed messages: %v", i, perr)
					return
				}
				if st.LocalClosed {
					fail("session-ended", "session %d ended during the run (last message type %d)", i, msgs[len(msgs)-1].Type)
					return
				}
				wire_ := map[string]int{}
				ka := 0
				for _, m := range msgs {
					switch m.Type {
					case wire.TypeUpdate:
						wire_[string(m.Body)]++
					case wire.TypeKeepalive:
						ka++
					}
				}
				called := map[string]int{}
				for wi, wr := range c.Writers {
					if wr.Peer != i {
						continue
					}
					for _, x := range results[wi] {
						if x.err != nil {
							fail("write-failed", "WriteUpdate on the Established session %d returned %v", i, x.err)
							return
						}
						called[string(x.body)]++
					}
				}
				for b, n := range called {
					if wire_[b] != n {
						fail("write-count", "session %d: %d WriteUpdate calls with the %d-byte body %x returned nil, %d such UPDATEs are on the wire (%d KEEPALIVEs)", i, n, len(b), b, wire_[b], ka)
						return
					}
				}
				for b, n := range wire_ {
					if called[b] == 0 {
						fail("unwritten-update", "session %d: %d UPDATEs with the %d-byte body %x are on the wire, nobody wrote them through this session's writer (%d KEEPALIVEs)", i, n, len(b), b, ka)
						return
					}
				}
			}
		})
		if b := o.Bad(); b != "" {
			fail("wedge", "%s", b)
		}
		v.Dev = dev
		return v
	}
}

func genC04Small(rt *rapid.T) c04SmallCase {
	c := c04SmallCase{SpinUs: pick[int64](rt, "spin", 5, 20, 60), Secs: rapid.IntRange(3, 8).Draw(rt, "secs")}
	for i, n := 0, rapid.IntRange(1, 3).Draw(rt, "nsess"); i < n; i++ {
		c.Holds = append(c.Holds, pick(rt, "hold", 3, 3, 6, 0))
	}
	for i, n := 0, rapid.IntRange(1, 4).Draw(rt, "nwriters"); i < n; i++ {
		wr := c04SmallWriter{Peer: rapid.IntRange(0, len(c.Holds)-1).Draw(rt, "wpeer")}
		ka := int64(time.Second)
		if h := c.Holds[wr.Peer]; h != 0 {
			ka = int64(h) * int64(time.Second) / 3
		}
		wr.GapNs = pick(rt, "gap", 0, ka, ka, int64(time.Second), 2*ka)
		nc := c.Secs*int(time.Second)/int(max(wr.GapNs, int64(time.Second)/4)) + 1
		for k := 0; k < min(nc, 12); k++ {
			wr.Lens = append(wr.Lens, pick(rt, "len", 0, 0, 0, 1, 4, 15))
		}
		wr.Reuse = rapid.IntRange(0, 2).Draw(rt, "reuse") == 0
		c.Writers = append(c.Writers, wr)
	}
	return c
}

// ---- a remote that stops reading for a while (back-pressure)

// The remote stops reading after Room more octets; corebgp's writes block
// (WriteUpdate callers and the FSM's KEEPALIVEs alike) until it resumes
// StallMs later. Whatever happened meanwhile, the stream is whole messages and
// every WriteUpdate that returned nil is on the wire exactly once.
type c04Stall struct {
	Hold    int `json:"hold"`
	Writers int `json:"writers"`
	N       int `json:"n"`        // calls per writer
	BodyLen int `json:"body_len"` // >= 16
	Room    int `json:"room"`     // octets accepted before the writes block
	StallMs int `json:"stall_ms"`
	PreMs   int `json:"pre_ms"` // quiet time between establishment and the stall (timer KEEPALIVEs go out)
}

func c04StallProp(t *testing.T, r *hx.Run, sub string) func(c c04Stall) hx.Verdict {
	return func(c c04Stall) hx.Verdict {
		r.SetCurrent(sub, c)
		total := c.Writers * c.N * (c.BodyLen + 19)
		v := hx.Verdict{Class: fmt.Sprintf("hold=%d/writers=%d/blocks=%v", c.Hold, c.Writers, total > c.Room)}
		if total > c.Room {
			v.NT = fmt.Sprintf("%+v", c)
		}
		var dev *hx.Dev
		fail := func(key, f string, a ...any) {
			if dev == nil {
				dev = hx.Devf(key, f, a...)
			}
		}
		sp := world.PeerSpec{Remote: "10.0.0.2", LocalAS: 64512, RemoteAS: 64513, Passive: true, Hold: c.Hold}
		o, serr := world.Single(t, "10.0.0.1", sp, false, nil, func(w *world.World, conn *memnet.Conn) {
			world.Handshake(w, sp, conn, 90, 0x0a000002)
			uw := w.Writer(sp.Remote, 0)
			if uw == nil {
				fail("setup", "session did not establish")
				return
			}
			stop := make(chan struct{})
			var kwg sync.WaitGroup
			if c.Hold != 0 {
				kwg.Add(1)
				go func() { // the remote keeps the session alive
					defer kwg.Done()
					tk := time.NewTicker(time.Duration(c.Hold) * time.Second / 3)
					defer tk.Stop()
					for {
						select {
						case <-stop:
							return
						case <-tk.C:
							conn.RemoteSend(wire.Keepalive(), nil)
						}
					}
				}()
			}
			time.Sleep(time.Duration(c.PreMs) * time.Millisecond)
			conn.StallWrites(c.Room)
			type res struct {
				body []byte
				err  error
			}
			results := make([][]res, c.Writers)
			var wwg sync.WaitGroup
			for g := 0; g < c.Writers; g++ {
				wwg.Add(1)
				go func() {
					defer wwg.Done()
					for k := 0; k < c.N; k++ {
						b := tagBody(0, 0, int64(g), k, c.BodyLen)
						results[g] = append(results[g], res{b, uw.WriteUpdate(b)})
					}
				}()
			}
			time.Sleep(time.Duration(c.StallMs) * time.Millisecond)
			conn.ResumeWrites()
			wdone := make(chan struct{})
			go func() { wwg.Wait(); close(wdone) }()
			tm := time.NewTimer(30 * time.Second)
			select {
			case <-wdone:
				tm.Stop()
			case <-tm.C:
				fail("writeupdate-blocked", "WriteUpdate callers are still blocked 30 virtual seconds after the remote resumed reading")
				close(stop)
				return
			}
			close(stop)
			kwg.Wait()
			w.Settle()
			st := conn.Snapshot()
			msgs, perr := wire.ParseStream(st.Bytes())
			nerr := 0
			for _, rs := range results {
				for _, x := range rs {
					if x.err != nil {
						nerr++
					}
				}
			}
			if perr != nil {
				fail("malformed-stream", "after a %d ms stall of the remote's reader (%d WriteUpdate calls failed): the bytes corebgp wrote are not whole well-formed messages: %v", c.StallMs, nerr, perr)
				return
			}
			onWire := map[string]int{}
			for _, m := range msgs {
				if m.Type == wire.TypeUpdate {
					onWire[string(m.Body)]++
				}
			}
			for g, rs := range results {
				last := -1
				for k, x := range rs {
					n := onWire[string(x.body)]
					if n > 1 || (x.err == nil && n != 1) {
						fail("write-count", "writer %d call %d returned %v; its UPDATE is on the wire %d times", g, k, x.err, n)
						return
					}
					if n == 1 {
						last = k
					}
				}
				_ = last
			}
			// per writer: call order = wire order
			pos := map[string]int{}
			for i, m := range msgs {
				if m.Type == wire.TypeUpdate {
					pos[string(m.Body)] = i
				}
			}
			for g, rs := range results {
				prev := -1
				for k, x := range rs {
					if p, ok := pos[string(x.body)]; ok {
						if p < prev {
							fail("write-order", "writer %d: call %d is on the wire before an earlier call", g, k)
							return
						}
						prev = p
					}
				}
			}
		})
		if serr != nil {
			fail("setup", "%v", serr)
		}
		if b := o.Bad(); b != "" {
			fail("wedge", "%s", b)
		}
		v.Dev = dev
		return v
	}
}

func genC04Stall(rt *rapid.T) c04Stall {
	c := c04Stall{Hold: pick(rt, "hold", 9, 9, 30, 0, 90), Writers: rapid.IntRange(1, 3).Draw(rt, "writers"), N: rapid.IntRange(1, 12).Draw(rt, "n"),
		BodyLen: pick(rt, "len", 16, 100, 1000, 4077), Room: pick(rt, "room", 0, 1, 18, 19, 20, 500, 5000, 20000)}
	h := c.Hold * 1000
	if h == 0 {
		h = 30000
	}
	// the FSM goroutine may itself sit in a blocked KEEPALIVE write; after a stall longer than the
	// hold time the session may end with Hold Timer Expired - the stream must be whole all the same
	c.StallMs = pick(rt, "stall", 1, h/9, h/3-1, h/3+1, h/2, h*8/10, h*12/10, 2*h+h/7)
	c.PreMs = pick(rt, "pre", 0, h/3+1, h/2, h+1)
	return c
}
