package props

import (
	"fmt"
	"hash/fnv"

	"pgregory.net/rapid"

	"verif/sim/hx"
	"verif/sim/wire"
)

// ---- small helpers shared by the property files

func h64(b []byte) string {
	h := fnv.New64a()
	h.Write(b)
	return fmt.Sprintf("%016x", h.Sum64())
}

// detBytes returns n bytes that are a pure function of (n, salt): used by the
// enumerations so that they need no RNG.
func detBytes(n int, salt uint32) []byte {
	b := make([]byte, n)
	x := uint32(2463534242) ^ salt*2654435761 ^ uint32(n)*40503
	if x == 0 {
		x = 1
	}
	for i := range b {
		x ^= x << 13
		x ^= x >> 17
		x ^= x << 5
		b[i] = byte(x >> 11)
	}
	return b
}

func genBytesN(rt *rapid.T, label string, n int) []byte {
	return rapid.SliceOfN(rapid.Byte(), n, n).Draw(rt, label)
}

func genBytes(rt *rapid.T, label string, max int) []byte {
	return rapid.SliceOfN(rapid.Byte(), 0, max).Draw(rt, label)
}

// pick draws one of the given values.
func pick[T any](rt *rapid.T, label string, vs ...T) T {
	return vs[rapid.IntRange(0, len(vs)-1).Draw(rt, label)]
}

// ---- OPEN grammar

// genCap draws a capability: codes 0..255 (65 over-represented), value lengths
// biased to the protocol's interesting ones.
func genCap(rt *rapid.T, maxVal int) wire.Cap {
	var code uint8
	switch rapid.IntRange(0, 9).Draw(rt, "capkind") {
	case 0:
		code = 65
	case 1:
		code = pick[uint8](rt, "capcode", 1, 2, 64, 69, 70, 73)
	default:
		code = rapid.Byte().Draw(rt, "capcode")
	}
	var n int
	switch rapid.IntRange(0, 5).Draw(rt, "caplenkind") {
	case 0:
		n = 0
	case 1:
		n = 4
	case 2:
		n = 1
	default:
		n = rapid.IntRange(0, maxVal).Draw(rt, "caplen")
	}
	if n > maxVal {
		n = maxVal
	}
	return wire.Cap{Code: code, Value: genBytesN(rt, "capval", n)}
}

// genOpenValue draws a structurally valid OPEN value whose lists are
// representable: 1..4 capability parameters, each with >= 1 capability and
// <= 255 bytes, all parameters together <= 255 bytes.
func genOpenValue(rt *rapid.T) wire.Open {
	o := wire.Open{
		Version: pick[uint8](rt, "ver", 4, 4, 4, 0, 3, 5, 255),
		AS2:     pick[uint16](rt, "as2", 1, 64512, 65535, 23456, 0, uint16(rapid.Uint16().Draw(rt, "as2r"))),
		Hold:    pick[uint16](rt, "hold", 0, 1, 2, 3, 90, 180, 65535, uint16(rapid.Uint16().Draw(rt, "holdr"))),
		ID:      pick[uint32](rt, "id", 0, 1, 0x0a000001, 0xe0000001, 0xffffffff, rapid.Uint32().Draw(rt, "idr")),
	}
	np := rapid.IntRange(1, 4).Draw(rt, "nparams")
	budget := 255
	for i := 0; i < np && budget >= 4; i++ {
		p := wire.Param{Type: 2}
		pb := budget - 2
		if pb > 255 {
			pb = 255
		}
		nc := rapid.IntRange(1, 6).Draw(rt, "ncaps")
		for j := 0; j < nc && pb >= 2; j++ {
			maxv := pb - 2
			if maxv > 60 && rapid.IntRange(0, 4).Draw(rt, "bigcap") != 0 {
				maxv = 60 // mostly small values, sometimes up to what fits (127/128 and 251 octets included)
			}
			c := genCap(rt, maxv)
			if maxv > 60 && len(c.Value) > 4 {
				c.Value = c.Value[:min(len(c.Value), pick(rt, "bigcaplen", 127, 128, 129, 200, 251, 253, maxv))]
			}
			p.Caps = append(p.Caps, c)
			pb -= 2 + len(c.Value)
		}
		o.Params = append(o.Params, p)
		budget -= len(p.Bytes())
	}
	return o
}

// mutateBytes applies a drawn list of 0..3 mutations to b: truncate, extend,
// nudge a byte by +-1, set a byte to a boundary value, duplicate a slice,
// splice random bytes. It reports how many mutations were applied.
func mutateBytes(rt *rapid.T, b []byte) ([]byte, int) {
	b = append([]byte(nil), b...)
	n := rapid.IntRange(0, 3).Draw(rt, "nmut")
	for i := 0; i < n; i++ {
		switch rapid.IntRange(0, 6).Draw(rt, "mut") {
		case 0: // truncate
			if len(b) > 0 {
				b = b[:rapid.IntRange(0, len(b)-1).Draw(rt, "trunc")]
			}
		case 1: // extend
			b = append(b, genBytes(rt, "ext", 6)...)
		case 2: // +-1 on a byte
			if len(b) > 0 {
				k := rapid.IntRange(0, len(b)-1).Draw(rt, "pos")
				if rapid.Bool().Draw(rt, "up") {
					b[k]++
				} else {
					b[k]--
				}
			}
		case 3: // boundary value
			if len(b) > 0 {
				k := rapid.IntRange(0, len(b)-1).Draw(rt, "pos")
				b[k] = pick[byte](rt, "bv", 0, 1, 2, 4, 0x7f, 0x80, 0xfe, 0xff)
			}
		case 4: // duplicate a slice
			if len(b) > 1 {
				i0 := rapid.IntRange(0, len(b)-1).Draw(rt, "i0")
				i1 := rapid.IntRange(i0, len(b)).Draw(rt, "i1")
				seg := append([]byte(nil), b[i0:i1]...)
				b = append(b[:i1], append(seg, b[i1:]...)...)
			}
		case 5: // splice random bytes
			k := rapid.IntRange(0, len(b)).Draw(rt, "pos")
			ins := genBytes(rt, "ins", 4)
			b = append(b[:k], append(ins, b[k:]...)...)
		case 6: // delete a slice
			if len(b) > 1 {
				i0 := rapid.IntRange(0, len(b)-1).Draw(rt, "i0")
				i1 := rapid.IntRange(i0, len(b)).Draw(rt, "i1")
				b = append(b[:i0], b[i1:]...)
			}
		}
	}
	return b, n
}

// genCuts draws a segmentation of an n-byte stream: one write, all 1-byte
// writes, or a drawn set of cut offsets.
func genCuts(rt *rapid.T, n int) []int {
	if n <= 1 {
		return nil
	}
	switch rapid.IntRange(0, 4).Draw(rt, "cutkind") {
	case 0:
		return nil
	case 1:
		if n > 600 {
			break
		}
		c := make([]int, 0, n-1)
		for i := 1; i < n; i++ {
			c = append(c, i)
		}
		return c
	}
	k := rapid.IntRange(1, 6).Draw(rt, "ncuts")
	set := map[int]bool{}
	for i := 0; i < k; i++ {
		var c int
		if n > 20 && rapid.Bool().Draw(rt, "hdrcut") {
			c = rapid.IntRange(1, 19).Draw(rt, "cut")
		} else {
			c = rapid.IntRange(1, n-1).Draw(rt, "cut")
		}
		set[c] = true
	}
	out := make([]int, 0, len(set))
	for i := 1; i < n; i++ {
		if set[i] {
			out = append(out, i)
		}
	}
	return out
}

var _ = hx.Hex(nil)
