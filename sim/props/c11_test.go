package props

import (
	"fmt"
	"testing"
	"time"

	"pgregory.net/rapid"

	"verif/sim/hx"
	"verif/sim/memnet"
	"verif/sim/wire"
	"verif/sim/world"
)

// C11 - reconnection liveness and retry pacing after non-damping faults.

type c11Fault struct {
	// Kind: refuse (N immediately refused attempts), refuse-after, stall,
	// close, reset, cease (on an accepted outbound connection at State),
	// reset-after-open (the remote answers corebgp's OPEN and resets the connection while
	// the plugin's OnOpenMessage still runs: corebgp's KEEPALIVE write fails),
	// inbound (an inbound session brought to State, then ended by End),
	// wait
	Kind    string `json:"kind"`
	N       int    `json:"n,omitempty"`
	DelayMs int    `json:"delay_ms,omitempty"`
	State   string `json:"state,omitempty"`
	End     string `json:"end,omitempty"` // inbound: close, reset, cease
	Sub     *uint8 `json:"sub,omitempty"` // subcode of the Cease (nil: 4)
	// Partial: for close / reset, that many octets of a 40-octet message (header and
	// part of the body) are sent before the connection goes away: a transport fault
	// inside a message is still a transport fault
	Partial int `json:"partial,omitempty"`
	// Glued (close / reset / cease, also as End of inbound): the last handshake message
	// and the end arrive in one piece - for cease: the Cease, a KEEPALIVE behind it
	// and the FIN - while the plugin's callbacks keep the FSM goroutine busy
	Glued bool `json:"glued,omitempty"`
}

type c11Case struct {
	IdleHoldMs  int        `json:"idle_hold_ms"`
	ConnRetryMs int        `json:"conn_retry_ms"`
	Passive     bool       `json:"passive"`
	Faults      []c11Fault `json:"faults"`
	Via         string     `json:"via"` // how the well-behaved remote lets the session come up: "out" or "in"
	// Listeners: Serve is given that many more (idle) listeners, around the one in use
	Listeners int `json:"listeners,omitempty"`
}

func c11Prop(t *testing.T, r *hx.Run) func(c c11Case) hx.Verdict {
	return func(c c11Case) hx.Verdict {
		r.SetCurrent("fault_sequences", c)
		kinds := map[string]bool{}
		seq := ""
		for _, f := range c.Faults {
			kinds[f.Kind] = true
			seq += f.Kind[:2] + f.State + map[bool]string{true: "g"}[f.Glued] + ","
		}
		v := hx.Verdict{Class: fmt.Sprintf("passive=%v/via=%s/kinds=%d/stall=%v", c.Passive, c.Via, len(kinds), kinds["stall"])}
		if len(kinds) >= 2 || kinds["stall"] {
			v.NT = fmt.Sprintf("%d/%d/%v/%s/%s", c.IdleHoldMs, c.ConnRetryMs, c.Passive, c.Via, seq)
		}
		idle := time.Duration(c.IdleHoldMs) * time.Millisecond
		retry := time.Duration(c.ConnRetryMs) * time.Millisecond
		eps := func(d time.Duration) time.Duration {
			e := d / 50
			if e < 10*time.Millisecond {
				e = 10 * time.Millisecond
			}
			return e
		}
		p := world.PeerSpec{Remote: "10.0.0.2", LocalAS: 64512, RemoteAS: 64513, Passive: c.Passive, Hold: 90, IdleHoldMs: c.IdleHoldMs, ConnRetryMs: c.ConnRetryMs}
		for _, f := range c.Faults {
			if f.Kind == "reset-after-open" {
				p.Plugin.SpinUs = map[string]int64{"open": 600} // OnOpenMessage takes a while
			}
			if f.Kind == "reset-before-open" {
				p.Plugin.SpinUs = map[string]int64{"caps": 600} // GetCapabilities takes a while
			}
		}
		for _, f := range c.Faults {
			if f.Glued && p.Plugin.SpinUs == nil {
				p.Plugin.SpinUs = map[string]int64{"open": 150, "est": 150}
			}
		}
		var dev *hx.Dev
		fail := func(key, f string, a ...any) {
			if dev == nil {
				dev = hx.Devf(key, f, a...)
			}
		}
		o := world.Run(t, func() {
			w, err := world.New("10.0.0.1", nil)
			if err != nil {
				fail("setup", "%v", err)
				return
			}
			defer func() {
				if dev != nil {
					dev.Msg += "\n" + w.Dump()
				}
				w.Finish()
			}()
			remote := p.RemoteAddr()
			setPlan := func(pl memnet.DialPlan) { w.Net.SetPlans(remote, pl) }
			setPlan(memnet.DialPlan{Kind: memnet.Refuse})
			if len(c.Faults) > 0 && !c.Passive {
				setPlan(c11PlanFor(c.Faults[0]))
			}
			if err := w.AddPeer(p); err != nil {
				fail("setup", "%v", err)
				return
			}
			w.ExtraListeners(c.Listeners)
			w.Serve()
			w.Settle()
			limit := 2*(idle+retry) + 10*time.Second
			// runs[i] = id of the pure-refusal run the i-th attempt belongs to (0 = none)
			runs := map[int]int{}
			runID := 0
			// endSession ends a session/connection from the remote side
			ceaseSub := uint8(4)
			partial := 0
			glued := false
			var pending []byte // glued: the last handshake message, still to be sent
			end := func(cn *memnet.Conn, how string) {
				if glued {
					tail := append([]byte{}, pending...)
					pending = nil
					if how == "cease" {
						tail = append(tail, wire.Notif{Code: 6, Sub: ceaseSub}.Frame()...)
						tail = append(tail, wire.Keepalive()...)
					}
					if len(tail) > 0 {
						cn.RemoteSend(tail, nil)
					}
					if how == "reset" {
						cn.RemoteReset()
					} else {
						cn.RemoteClose()
					}
					w.Settle()
					return
				}
				if partial > 0 && (how == "close" || how == "reset") {
					m := wire.Frame(wire.TypeUpdate, make([]byte, 21))
					if len(cn.Snapshot().Writes) <= 1 {
						// still in OpenSent: the incomplete message is the remote's OPEN
						m = wire.NewOpen(64513, 90, 0x0a000002).Frame()
					}
					cn.RemoteSend(m[:min(partial, len(m)-1)], nil)
					w.Settle()
				}
				switch how {
				case "reset":
					cn.RemoteReset()
				case "cease":
					cn.RemoteSend(wire.Notif{Code: 6, Sub: ceaseSub}.Frame(), nil)
					w.Settle()
					cn.RemoteClose()
				default:
					cn.RemoteClose()
				}
				w.Settle()
			}
			toState := func(cn *memnet.Conn, state string) {
				hs := handshakeBytes(p, cn, state, 90)
				if glued && len(hs) > 0 {
					pending, hs = hs[len(hs)-1], hs[:len(hs)-1]
				}
				for _, m := range hs {
					cn.RemoteSend(m, nil)
					w.Settle()
				}
			}
			for fi, f := range c.Faults {
				ceaseSub = 4
				if f.Sub != nil {
					ceaseSub = *f.Sub
				}
				partial = f.Partial
				glued, pending = f.Glued && f.Partial == 0, nil
				done := len(w.Net.Dials())
				if fi == 0 {
					done = 0 // the attempt made at Serve time already follows fault 0's plan
				}
				// attempts in flight when the plan changes keep their old plan; wait them out
				if done > 0 && !w.Net.Dials()[done-1].Done {
					if !w.Net.WaitDialDone(done-1, limit) {
						fail("dial-never-finished", "fault %d: dial attempt %d still pending after %v", fi, done-1, limit)
						return
					}
					w.Settle()
				}
				switch f.Kind {
				case "wait":
					w.Advance(time.Duration(f.DelayMs) * time.Millisecond)
				case "refuse":
					setPlan(memnet.DialPlan{Kind: memnet.Refuse})
					runID++
					if !w.Net.WaitDials(done+f.N, time.Duration(f.N)*idle+limit) {
						fail("stopped-dialling", "fault %d: while every attempt is refused corebgp made %d of %d expected attempts in %v", fi, len(w.Net.Dials())-done, f.N, time.Duration(f.N)*idle+limit)
						return
					}
					for k := done; k < done+f.N; k++ {
						runs[k] = runID
					}
					w.Settle()
				case "refuse-after", "stall":
					setPlan(c11PlanFor(f))
					if !w.Net.WaitDials(done+1, limit) || !w.Net.WaitDialDone(done, limit+retry) {
						fail("stopped-dialling", "fault %d (%s): no (finished) dial attempt within %v", fi, f.Kind, limit)
						return
					}
					w.Settle()
				case "accept-at-retry":
					// the dial completes at the very instant the connect-retry timer gives up on
					// it (the hand-over takes a moment of real time, whatever the context says): if
					// corebgp adopts the connection all the same, it is a connection like any other
					setPlan(memnet.DialPlan{Kind: memnet.Hold, SpinUs: 200})
					if !w.Net.WaitDials(done+1, limit) {
						fail("stopped-dialling", "fault %d (%s): no dial attempt within %v", fi, f.Kind, limit)
						return
					}
					setPlan(memnet.DialPlan{Kind: memnet.Refuse}) // (the attempt in flight keeps its plan)
					if wait := w.Net.Dials()[done].At + retry - w.Net.Since(); wait > 0 {
						time.Sleep(wait)
					}
					w.Net.Release(remote)
					w.Settle()
					if cn := w.Net.Dials()[done].Conn; cn != nil && !cn.Snapshot().LocalClosed && len(cn.Snapshot().Writes) > 0 {
						before := w.Sessions(p.Remote)
						toState(cn, stEstablished)
						if w.Sessions(p.Remote) != before+1 {
							fail("adopted-connection-dead", "fault %d: the dial completed as the connect-retry timer expired, corebgp sent its OPEN on the connection, but a full handshake does not establish a session", fi)
							return
						}
						end(cn, "close")
					}
				case "reset-before-open":
					// the remote accepts and resets while the plugin still builds its
					// capabilities: corebgp's OPEN cannot be written
					setPlan(memnet.DialPlan{Kind: memnet.Accept})
					if !w.Net.WaitDials(done+1, limit) {
						fail("stopped-dialling", "fault %d (%s): no dial attempt within %v", fi, f.Kind, limit)
						return
					}
					memnet.Spin(int64(f.DelayMs)) // (microseconds here)
					cn := w.Net.Dials()[done].Conn
					if cn == nil {
						// the socket was not even built yet: the reset comes a little later (in OpenSent)
						w.Settle()
						cn = w.Net.Dials()[done].Conn
					}
					if cn != nil {
						cn.RemoteReset()
					}
					setPlan(memnet.DialPlan{Kind: memnet.Refuse})
					w.Settle()
				case "reset-after-open":
					setPlan(memnet.DialPlan{Kind: memnet.Accept})
					if !w.Net.WaitDials(done+1, limit) {
						fail("stopped-dialling", "fault %d (%s): no dial attempt within %v", fi, f.Kind, limit)
						return
					}
					w.Settle()
					cn := w.Net.Dials()[done].Conn
					setPlan(memnet.DialPlan{Kind: memnet.Refuse})
					if cn == nil {
						fail("setup", "accepted dial has no connection")
						return
					}
					cn.RemoteSend(world.RemoteOpen(p, cn, 90, 0x0a000002).Frame(), nil)
					memnet.Spin(int64(f.DelayMs)) // (microseconds here) the OPEN is read, the callback runs
					cn.RemoteReset()
					w.Settle()
				case "close", "reset", "cease":
					setPlan(memnet.DialPlan{Kind: memnet.Accept})
					if !w.Net.WaitDials(done+1, limit) {
						fail("stopped-dialling", "fault %d (%s): no dial attempt within %v", fi, f.Kind, limit)
						return
					}
					w.Settle()
					cn := w.Net.Dials()[done].Conn
					setPlan(memnet.DialPlan{Kind: memnet.Refuse})
					if cn == nil {
						fail("setup", "accepted dial has no connection")
						return
					}
					toState(cn, f.State)
					end(cn, f.Kind)
				case "inbound":
					setPlan(memnet.DialPlan{Kind: memnet.Refuse})
					cn := w.Inbound(p.Remote, "10.0.0.1")
					w.Settle()
					if len(cn.Snapshot().Bytes()) == 0 {
						// not admitted (e.g. an outbound attempt holds the slot); nothing to end
						continue
					}
					toState(cn, f.State)
					wasEst := f.State == stEstablished && w.Sessions(p.Remote) > 0 && !cn.Snapshot().LocalClosed && !glued
					before := len(w.Net.Dials())
					tEnd := w.Net.Since()
					end(cn, f.End)
					if wasEst && !c.Passive {
						// (iv) the peer resumes dialling at once
						w.Advance(eps(0))
						ds := w.Net.Dials()
						if len(ds) <= before || ds[before].At-tEnd > eps(0) {
							fail("no-redial-after-inbound", "fault %d: the inbound session ended at %v, no outbound attempt within %v", fi, tEnd, eps(0))
							return
						}
					}
				}
				if fi+1 < len(c.Faults) && !c.Passive {
					setPlan(c11PlanFor(c.Faults[fi+1]))
				}
			}
			// the remote turns well-behaved
			glued, pending = false, nil
			done := len(w.Net.Dials())
			if done > 0 && !w.Net.Dials()[done-1].Done {
				// a stalled/slow attempt is still pending: it belongs to the fault prefix
				w.Net.WaitDialDone(done-1, limit)
				w.Settle()
			}
			T := w.Net.Since()
			sessBefore := w.Sessions(p.Remote)
			bound := idle + retry + eps(idle+retry)
			var estConn *memnet.Conn
			if c.Via == "in" || c.Passive {
				setPlan(memnet.DialPlan{Kind: memnet.Refuse})
				cn := w.Inbound(p.Remote, "10.0.0.1")
				w.Settle()
				if len(cn.Snapshot().Bytes()) == 0 {
					fail("inbound-not-accepted", "at %v a new inbound connection from the peer got no OPEN (closed=%v)", T, cn.Snapshot().LocalClosed)
					return
				}
				toState(cn, stEstablished)
				estConn = cn
			} else {
				setPlan(memnet.DialPlan{Kind: memnet.Accept})
				n0 := len(w.Net.Dials())
				if !w.Net.WaitDials(n0+1, bound) {
					fail("no-reconnect", "the remote accepts connections since %v, no dial attempt within idle-hold + connect-retry (%v)", T, bound)
					return
				}
				w.Settle()
				cn := w.Net.Dials()[n0].Conn
				if cn == nil {
					fail("setup", "accepted dial has no connection")
					return
				}
				toState(cn, stEstablished)
				estConn = cn
			}
			if w.Sessions(p.Remote) != sessBefore+1 || estConn.Snapshot().LocalClosed {
				fail("not-established", "well-behaved remote since %v: handshake completed but OnEstablished x%d (was %d), closed=%v", T, w.Sessions(p.Remote), sessBefore, estConn.Snapshot().LocalClosed)
				return
			}
			var estAt time.Duration
			for _, e := range w.Rec.Events() {
				if e.K == "est+" {
					estAt = e.T
				}
			}
			if estAt-T > bound {
				fail("reconnect-too-slow", "remote well-behaved since %v, Established at %v (%v later), bound %v", T, estAt, estAt-T, bound)
				return
			}
			// pacing checks over the dial registry
			ds := w.Net.Dials()
			if c.Passive && len(ds) != 0 {
				fail("passive-dialled", "a passive peer made %d dial attempts (first at %v)", len(ds), ds[0].At)
				return
			}
			for i := 1; i < len(ds); i++ {
				gap := ds[i].At - ds[i-1].At
				// busy redialling: a burst of dial starts at one instant. Two
				// (or three) at one instant happen legitimately: an attempt
				// launched by the connect-retry timer that is refused leads
				// to Idle, whose idle-hold timer may have expired long ago.
				// The clock does not move while the script brings up and ends an inbound
				// session, and every such end is followed by a dial of its own: a burst
				// with the end of a connection in its midst is not a loop either.
				sessionEnd := false
				if i >= 3 {
					for _, cn := range w.Net.Conns() {
						if st := cn.Snapshot(); st.LocalClosed && st.CloseSeq > ds[i-3].Seq && st.CloseSeq < ds[i].Seq {
							sessionEnd = true
						}
					}
				}
				if i >= 3 && ds[i].At-ds[i-3].At < time.Millisecond && !sessionEnd {
					fail("busy-redial", "dial attempts %d..%d all start within 1 ms (at %v .. %v)", i-3, i, ds[i-3].At, ds[i].At)
					return
				}
				// steady state of a refusal run: attempts i-2, i-1 and i all
				// refused at once and consecutive (or the run starts with the
				// very first attempt of the FSM)
				steady := runs[i] != 0 && runs[i] == runs[i-1] && (i == 1 || (i >= 2 && runs[i-2] == runs[i]))
				if steady {
					if gap < idle-eps(idle) || gap > idle+eps(idle) {
						fail("refused-pacing", "consecutive refused attempts %d and %d are %v apart, idle-hold time is %v", i-1, i, gap, idle)
						return
					}
				}
			}
			for i, d := range ds {
				if d.Plan.Kind != memnet.Stall {
					continue
				}
				if !d.Done || !d.Cancelled {
					fail("stall-not-cancelled", "stalled attempt %d (started %v) was never cancelled", i, d.At)
					return
				}
				// an attempt is also abandoned when the outbound FSM is stopped
				// because an inbound session became Established: not a retry expiry
				stopped := false
				for _, e := range w.Rec.Events() {
					if e.K == "est+" && e.T >= d.CancelAt-eps(0) && e.T <= d.CancelAt+eps(0) {
						stopped = true
					}
				}
				if stopped && d.CancelAt-d.At < retry {
					continue
				}
				if dt := d.CancelAt - d.At; dt < retry-eps(retry) || dt > retry+eps(retry) {
					fail("stall-cancel-time", "stalled attempt %d started %v, cancelled %v (%v later), connect-retry time is %v", i, d.At, d.CancelAt, dt, retry)
					return
				}
				if i+1 >= len(ds) || ds[i+1].At-d.CancelAt > eps(retry) {
					fail("stall-no-new-attempt", "stalled attempt %d was abandoned at %v but no new attempt started then", i, d.CancelAt)
					return
				}
			}
		})
		if b := o.Bad(); b != "" {
			fail("wedge", "%s", b)
		}
		v.Dev = dev
		return v
	}
}

func c11PlanFor(f c11Fault) memnet.DialPlan {
	switch f.Kind {
	case "refuse-after":
		return memnet.DialPlan{Kind: memnet.Refuse, Delay: time.Duration(f.DelayMs) * time.Millisecond}
	case "stall":
		return memnet.DialPlan{Kind: memnet.Stall}
	case "close", "reset", "cease", "reset-after-open", "reset-before-open":
		return memnet.DialPlan{Kind: memnet.Accept}
	case "accept-at-retry":
		return memnet.DialPlan{Kind: memnet.Hold, SpinUs: 200}
	}
	return memnet.DialPlan{Kind: memnet.Refuse}
}

func genC11(rt *rapid.T) c11Case {
	c := c11Case{
		IdleHoldMs:  pick(rt, "idle", 50, 100, 1000, 5000, 7000, 30000, rapid.IntRange(50, 30000).Draw(rt, "idler")),
		ConnRetryMs: pick(rt, "retry", 50, 300, 1000, 5000, 11000, 30000, rapid.IntRange(50, 30000).Draw(rt, "retryr")),
		Passive:     rapid.IntRange(0, 4).Draw(rt, "passive") == 0,
		Via:         pick(rt, "via", "out", "out", "in"),
		Listeners:   pick(rt, "listeners", 0, 0, 1, 2),
	}
	n := rapid.IntRange(0, 12).Draw(rt, "nfaults")
	for i := 0; i < n; i++ {
		var f c11Fault
		if c.Passive {
			f.Kind = pick(rt, "pkind", "inbound", "inbound", "wait")
		} else {
			f.Kind = pick(rt, "kind", "refuse", "refuse", "refuse-after", "stall", "close", "reset", "cease", "inbound", "wait", "reset-after-open", "reset-before-open", "accept-at-retry")
		}
		switch f.Kind {
		case "refuse":
			f.N = rapid.IntRange(1, 5).Draw(rt, "nref")
		case "reset-after-open":
			f.DelayMs = pick(rt, "rao", 50, 150, 300, 450)
		case "reset-before-open":
			f.DelayMs = pick(rt, "rbo", 20, 100, 250)
		case "refuse-after":
			f.DelayMs = rapid.IntRange(1, c.ConnRetryMs-1).Draw(rt, "rdelay")
		case "wait":
			f.DelayMs = pick(rt, "wait", 1, 100, c.IdleHoldMs, c.ConnRetryMs+1, rapid.IntRange(1, 60000).Draw(rt, "waitr"))
		case "close", "reset", "cease":
			f.State = pick(rt, "state", allStates...)
		case "inbound":
			f.State = pick(rt, "istate", stOpenSent, stOpenConfirm, stEstablished, stEstablished)
			f.End = pick(rt, "iend", "close", "reset", "cease")
		}
		if f.Kind == "close" || f.Kind == "reset" || f.End == "close" || f.End == "reset" {
			if rapid.IntRange(0, 2).Draw(rt, "withpartial") == 0 {
				f.Partial = pick(rt, "partial", 1, 18, 19, 20, 30, 39)
			}
		}
		if (f.Kind == "close" || f.Kind == "reset" || f.Kind == "cease" || f.End != "") && f.Partial == 0 {
			f.Glued = rapid.IntRange(0, 2).Draw(rt, "glued") == 0
		}
		if f.Kind == "cease" || f.End == "cease" {
			if rapid.Bool().Draw(rt, "withsub") {
				sub := pick[uint8](rt, "sub", 0, 1, 2, 3, 5, 6, 7, 8, 9, 10, 255, rapid.Byte().Draw(rt, "subr"))
				f.Sub = &sub
			}
		}
		c.Faults = append(c.Faults, f)
	}
	return c
}

func TestC11(t *testing.T) {
	r := hx.Start(t, "C11")
	defer r.Finish(t)
	hx.Rapid(r, t, "fault_sequences", r.N(4000, 40000), genC11, c11Prop(t, r))
	creps := r.N(2, 10)
	hx.Enum(r, t, "survivor_of_collision_fails", 0, func(yield func(c11Coll) bool) {
		for rep := 0; rep < creps; rep++ {
			for _, ld := range []bool{false, true} {
				for _, end := range []string{"fin", "rst", "cease"} {
					for _, via := range []string{"out", "in"} {
						for _, tm := range [][2]int{{50, 50}, {1000, 5000}, {200, 100}} {
							if !yield(c11Coll{LocalDominant: ld, End: end, Via: via, IdleHoldMs: tm[0], ConnRetryMs: tm[1]}) {
								return
							}
						}
					}
				}
			}
		}
	}, c11CollProp(t, r, "survivor_of_collision_fails"))
}

// ---- the fault hits the survivor of a connection collision

// Both connections reach OpenConfirm, the collision is resolved (the loser gets
// its Cease), and then the surviving connection fails before it is
// Established. Nothing has been damped: the peer must be dialling again within
// the usual bound, serve an inbound connection, and establish.
type c11Coll struct {
	LocalDominant bool   `json:"local_dominant"`
	End           string `json:"end"` // fin rst cease
	IdleHoldMs    int    `json:"idle_hold_ms"`
	ConnRetryMs   int    `json:"conn_retry_ms"`
	Via           string `json:"via"` // how the well-behaved remote comes back: out (accepts the dial) or in
}

func c11CollProp(t *testing.T, r *hx.Run, sub string) func(c c11Coll) hx.Verdict {
	return func(c c11Coll) hx.Verdict {
		r.SetCurrent(sub, c)
		v := hx.Verdict{Class: fmt.Sprintf("localdominant=%v/%s/via=%s", c.LocalDominant, c.End, c.Via)}
		v.NT = fmt.Sprintf("%+v", c)
		localID, remoteID := "10.0.0.1", uint32(0x0a000002)
		if c.LocalDominant {
			localID = "10.0.0.3"
		}
		p := world.PeerSpec{Remote: "10.0.0.2", LocalAS: 64512, RemoteAS: 64513, Hold: 90, IdleHoldMs: c.IdleHoldMs, ConnRetryMs: c.ConnRetryMs}
		idle, retry := time.Duration(c.IdleHoldMs)*time.Millisecond, time.Duration(c.ConnRetryMs)*time.Millisecond
		var dev *hx.Dev
		fail := func(key, f string, a ...any) {
			if dev == nil {
				dev = hx.Devf(key, f, a...)
			}
		}
		o := world.Run(t, func() {
			w, err := world.New(localID, nil)
			if err != nil {
				fail("setup", "%v", err)
				return
			}
			defer func() {
				if dev != nil {
					dev.Msg += "\n" + w.Dump()
				}
				w.Finish()
			}()
			w.Net.SetPlans(p.RemoteAddr(), memnet.DialPlan{Kind: memnet.Accept}, memnet.DialPlan{Kind: memnet.Refuse})
			if err := w.AddPeer(p); err != nil {
				fail("setup", "%v", err)
				return
			}
			w.Serve()
			w.Settle()
			out := w.DialedConn(p.Remote, 0)
			in := w.Inbound(p.Remote, "10.0.0.1")
			w.Settle()
			if out == nil || len(out.Snapshot().Bytes()) == 0 || len(in.Snapshot().Bytes()) == 0 {
				fail("setup", "both connections should be in OpenSent")
				return
			}
			winner, loser := in, out
			if c.LocalDominant {
				winner, loser = out, in
			}
			loser.RemoteSend(world.RemoteOpen(p, loser, 90, remoteID).Frame(), nil)
			w.Settle()
			winner.RemoteSend(world.RemoteOpen(p, winner, 90, remoteID).Frame(), nil)
			w.Settle()
			if !loser.Snapshot().LocalClosed || winner.Snapshot().LocalClosed {
				fail("setup-collision", "collision not resolved as expected: loser closed=%v, winner closed=%v", loser.Snapshot().LocalClosed, winner.Snapshot().LocalClosed)
				return
			}
			// the survivor fails in OpenConfirm
			switch c.End {
			case "rst":
				winner.RemoteReset()
			case "cease":
				winner.RemoteSend(wire.Notif{Code: 6, Sub: 4}.Frame(), nil)
				w.Settle()
				winner.RemoteClose()
			default:
				winner.RemoteClose()
			}
			t0 := w.Net.Since()
			w.Settle()
			// the remote is well behaved from now on
			limit := idle + retry + 50*time.Millisecond
			var cn *memnet.Conn
			if c.Via == "out" {
				w.Net.SetPlans(p.RemoteAddr(), memnet.DialPlan{Kind: memnet.Accept})
				n0 := len(w.Net.Dials())
				for k := 0; k < 4 && cn == nil; k++ {
					if !w.Net.WaitDials(n0+1+k, limit) {
						break
					}
					w.Settle()
					cn = w.Net.Dials()[n0+k].Conn // (an attempt launched before the plan change was refused)
				}
				if cn == nil {
					fail("no-reconnect", "the survivor of the collision failed at %v; the remote accepts connections since then, no accepted dial attempt within idle-hold + connect-retry (%v) each", t0, limit)
					return
				}
			} else {
				cn = w.Inbound(p.Remote, "10.0.0.1")
				w.Settle()
				if len(cn.Snapshot().Bytes()) == 0 {
					fail("inbound-refused", "the survivor of the collision failed at %v; an inbound connection right afterwards is not served (closed=%v)", t0, cn.Snapshot().LocalClosed)
					return
				}
			}
			world.Handshake(w, p, cn, 90, remoteID)
			if w.Sessions(p.Remote) != 1 || cn.Snapshot().LocalClosed {
				fail("not-established", "after the collision and the loss of its survivor a full handshake does not establish (OnEstablished x%d, closed=%v)", w.Sessions(p.Remote), cn.Snapshot().LocalClosed)
			}
		})
		if b := o.Bad(); b != "" {
			fail("wedge", "%s", b)
		}
		v.Dev = dev
		return v
	}
}
