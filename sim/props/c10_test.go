package props

import (
	"bytes"
	"errors"
	"fmt"
	"net/netip"
	"runtime"
	"strings"
	"sync"
	"testing"
	"time"

	"github.com/jwhited/corebgp"
	"pgregory.net/rapid"

	"verif/sim/hx"
	"verif/sim/memnet"
	"verif/sim/wire"
	"verif/sim/world"
)

// C10 - shutdown from any state is prompt, complete, race-free and leak-free.

type c10Peer struct {
	// Park: idle (dials refused), dial-stalled, dial-held, active, opensent-out,
	// openconfirm-out, established-out, opensent-in, openconfirm-in,
	// established-in, collision (out in OpenSent + in in OpenConfirm),
	// collision2 (both in OpenSent), held-down, writers-in, writers-out,
	// *-partial: the remote has sent a header and part of the body of a message
	// (the reader sits between the two) when the stop arrives,
	// twins-in: three inbound connections back to back (at most one is served),
	// idle-due / active-due: the stop is called at the instant the idle-hold /
	// connect-retry timer fires and the next dial (which succeeds) is launched
	Park     string `json:"park"`
	Passive  bool   `json:"passive,omitempty"`
	SpinCb   string `json:"spin_cb,omitempty"` // a plugin callback that busy-waits a little
	SpinLong bool   `json:"spin_long,omitempty"`
	SpinUs   int64  `json:"spin_us,omitempty"`
	Hold0    bool   `json:"hold0,omitempty"` // the peer is configured with hold time 0 (no session timers)
	// RHold0: the remote's OPEN proposes hold time 0 (the peer's own configuration says 90): no
	// session timers either; an Established session has received an UPDATE when the stop arrives
	RHold0 bool `json:"rhold0,omitempty"`
}

type c10Conc struct {
	Kind string `json:"kind"` // open keepalive update notif rclose rreset release connect write
	Peer int    `json:"peer"`
	Dir  string `json:"dir"`
}

type c10Case struct {
	Peers  []c10Peer `json:"peers"`
	API    string    `json:"api"` // close, del, del-add, liserr
	Conc   []c10Conc `json:"conc,omitempty"`
	Delays []int64   `json:"delays,omitempty"`
	Late   bool      `json:"late,omitempty"` // concurrent events fire after the API call was started (else before)
	// Arm: the (ArmSkip+1)-th call of the named schedule point from the stop burst on busy-waits
	// ArmD x 4 us (e.g. fsm.enter: the FSM is held between the peer manager's approval of a
	// transition and the entry into the new state's function)
	ArmPoint string `json:"arm_point,omitempty"`
	ArmSkip  int    `json:"arm_skip,omitempty"`
	ArmD     int64  `json:"arm_d,omitempty"`
	// Listeners: Serve was given that many more (idle) listeners
	Listeners int `json:"listeners,omitempty"`
}

func c10Spec(i int, p c10Peer) world.PeerSpec {
	sp := world.PeerSpec{Remote: fmt.Sprintf("10.0.0.%d", 2+i), LocalAS: 64512, RemoteAS: uint32(64600 + i), Hold: 90, IdleHoldMs: 5000, ConnRetryMs: 5000}
	switch p.Park {
	case "opensent-in", "openconfirm-in", "established-in", "writers-in", "opensent-in-partial", "established-in-partial":
		sp.Passive = p.Passive
	}
	if p.Hold0 {
		sp.Hold = 0
	}
	if p.SpinCb != "" {
		us := int64(30)
		if p.SpinLong {
			us = 400
		}
		if p.SpinUs > 0 {
			us = p.SpinUs
		}
		sp.Plugin.SpinUs = map[string]int64{p.SpinCb: us}
	}
	return sp
}

func c10Plan(park string) memnet.DialPlan {
	switch park {
	case "dial-stalled":
		return memnet.DialPlan{Kind: memnet.Stall}
	case "dial-held":
		return memnet.DialPlan{Kind: memnet.Hold}
	case "active", "active-due", "opensent-out", "openconfirm-out", "established-out", "collision", "collision2", "writers-out", "opensent-out-partial", "established-out-partial":
		return memnet.DialPlan{Kind: memnet.Accept}
	}
	return memnet.DialPlan{Kind: memnet.Refuse}
}

// corebgpGoroutines counts goroutines of the current bubbles that run peer or
// FSM code.
func corebgpGoroutines() (int, string) {
	buf := make([]byte, 1<<20)
	n := runtime.Stack(buf, true)
	cnt := 0
	var sample []string
	for _, g := range strings.Split(string(buf[:n]), "\n\n") {
		if !strings.Contains(g, "synctest bubble") {
			continue
		}
		if strings.Contains(g, "corebgp.(*fsm)") || strings.Contains(g, "corebgp.(*peer)") {
			cnt++
			if len(sample) < 4 {
				if len(g) > 700 {
					g = g[:700]
				}
				sample = append(sample, g)
			}
		}
	}
	return cnt, strings.Join(sample, "\n\n")
}

func c10Prop(t *testing.T, r *hx.Run, sub string) func(c c10Case) hx.Verdict {
	return func(c c10Case) hx.Verdict {
		r.SetCurrent(sub, c)
		parks := ""
		busy := false
		for _, p := range c.Peers {
			parks += p.Park + ","
			if p.Park != "idle" && p.Park != "held-down" {
				busy = true
			}
		}
		concs := ""
		for _, x := range c.Conc {
			concs += x.Kind + ","
		}
		v := hx.Verdict{Class: fmt.Sprintf("%s/%s", c.API, c.Peers[0].Park)}
		if busy {
			v.NT = fmt.Sprintf("%s/%s/%s/%v/%v", c.API, parks, concs, c.Late, c.Delays)
		}
		var dev *hx.Dev
		fail := func(key, f string, a ...any) {
			if dev == nil {
				dev = hx.Devf(key, f, a...)
			}
		}
		o := world.Run(t, func() {
			delays := c.Delays
			if len(delays) == 0 && c.ArmPoint != "" {
				delays = []int64{0}
			}
			w, err := world.New("10.0.0.1", delays)
			if err != nil {
				fail("setup", "%v", err)
				return
			}
			defer func() {
				if dev != nil {
					dev.Msg += "\n" + w.Dump()
				}
				w.Finish()
			}()
			specs := make([]world.PeerSpec, len(c.Peers))
			for i, p := range c.Peers {
				specs[i] = c10Spec(i, p)
				w.Net.SetPlans(specs[i].RemoteAddr(), c10Plan(p.Park), memnet.DialPlan{Kind: memnet.Refuse})
				if p.Park == "dial-stalled" || p.Park == "dial-held" {
					w.Net.SetPlans(specs[i].RemoteAddr(), c10Plan(p.Park))
				}
				if strings.HasSuffix(p.Park, "-due") {
					w.Net.SetPlans(specs[i].RemoteAddr(), c10Plan(p.Park), memnet.DialPlan{Kind: memnet.Accept, SpinUs: p.SpinUs})
				}
				if err := w.AddPeer(specs[i]); err != nil {
					fail("setup", "%v", err)
					return
				}
			}
			w.ExtraListeners(c.Listeners)
			w.Serve()
			w.Settle()
			// park every peer
			conns := map[string]*memnet.Conn{} // "i/in", "i/out"
			partialConn := map[int]bool{}      // connections with an incomplete message pending: any further bytes complete garbage
			partialRest := map[int][]byte{}    // ... and the octets that would complete it
			var wg sync.WaitGroup
			stopWriters := make(chan struct{})
			startWriters := make(chan struct{})
			for i, p := range c.Peers {
				sp := specs[i]
				out := w.DialedConn(sp.Remote, 0)
				if out == nil {
					out = w.Net.PendingConn(sp.RemoteAddr())
				}
				if out != nil {
					conns[fmt.Sprintf("%d/out", i)] = out
				}
				inbound := func() *memnet.Conn {
					cn := w.Inbound(sp.Remote, "10.0.0.1")
					w.Settle()
					conns[fmt.Sprintf("%d/in", i)] = cn
					return cn
				}
				to := func(cn *memnet.Conn, state string) {
					rhold := uint16(90)
					if p.RHold0 {
						rhold = 0
					}
					for _, m := range handshakeBytes(sp, cn, state, rhold) {
						cn.RemoteSend(m, nil)
						w.Settle()
					}
					if p.RHold0 && state == stEstablished {
						cn.RemoteSend(wire.Frame(wire.TypeUpdate, taggedUpdate(0xC1000000, 9)), nil)
						w.Settle()
					}
				}
				switch p.Park {
				case "active", "active-due":
					if out != nil {
						out.RemoteClose() // TCP failure in OpenSent -> Active
						w.Settle()
					}
				case "openconfirm-out":
					to(out, stOpenConfirm)
				case "established-out", "writers-out":
					to(out, stEstablished)
				case "opensent-in":
					inbound()
				case "opensent-in-partial", "established-in-partial", "opensent-out-partial", "established-out-partial":
					cn := out
					if strings.Contains(p.Park, "-in-") {
						cn = inbound()
					}
					if cn != nil {
						if strings.HasPrefix(p.Park, "established") {
							to(cn, stEstablished)
						}
						m := wire.Frame(wire.TypeUpdate, make([]byte, 40))
						if strings.HasPrefix(p.Park, "opensent") {
							m = world.RemoteOpen(sp, cn, 90, 0x0a000002).Frame()
						}
						cn.RemoteSend(m[:len(m)-7], nil) // the whole header and most of the body
						w.Settle()
						partialConn[cn.ID] = true
						partialRest[cn.ID] = m[len(m)-7:]
					}
				case "openconfirm-in":
					to(inbound(), stOpenConfirm)
				case "established-in", "writers-in":
					to(inbound(), stEstablished)
				case "collision":
					to(inbound(), stOpenConfirm)
				case "collision2":
					inbound()
				case "twins-in":
					for k := 0; k < 3; k++ {
						cn := w.Inbound(sp.Remote, "10.0.0.1")
						if k == 0 {
							conns[fmt.Sprintf("%d/in", i)] = cn
						}
					}
					w.Settle()
				case "held-down":
					cn := inbound()
					bad := wire.Keepalive()
					bad[2] = 0
					cn.RemoteSend(bad, nil)
					w.Settle()
				}
				if strings.HasPrefix(p.Park, "writers") {
					for g := 0; g < 3; g++ {
						wg.Add(1)
						go func(g int) {
							defer wg.Done()
							<-startWriters // released in the stop burst
							for k := 0; ; k++ {
								select {
								case <-stopWriters:
									return
								default:
								}
								if _, err := w.WriteUpdate(sp.Remote, 0, int64(g), tagBody(i, 0, int64(g), k, 40)); err != nil {
									return
								}
								if k > 300 {
									return
								}
								runtime.Gosched()
							}
						}(g)
					}
				}
			}
			w.Settle()
			// stage of every connection at the last stable point before the stop
			stage := map[int]string{}
			fine := map[int]string{} // opensent / openconfirm / established
			for _, cn := range w.Net.Conns() {
				st := cn.Snapshot()
				msgs, _ := wire.ParseStream(st.Bytes())
				switch {
				case st.LocalClosed || !st.HandedOver:
					stage[st.ID] = "none"
				case len(msgs) >= 1 && msgs[len(msgs)-1].Type != wire.TypeNotification:
					stage[st.ID] = "session" // OpenSent, OpenConfirm or Established
					switch {
					case len(msgs) == 1:
						fine[st.ID] = stOpenSent
					case w.Sessions(st.Remote.Addr().String()) > 0:
						fine[st.ID] = stEstablished
					default:
						fine[st.ID] = stOpenConfirm
					}
				default:
					stage[st.ID] = "none"
				}
			}
			estBefore := map[string]bool{}
			for i := range c.Peers {
				if w.Sessions(specs[i].Remote) > 0 {
					estBefore[specs[i].Remote] = true
				}
			}
			affected := map[string]bool{}
			switch c.API {
			case "del", "del-add":
				affected[specs[0].Remote] = true
			default:
				for _, sp := range specs {
					affected[sp.Remote] = true
				}
			}
			touched := map[int]bool{}
			progressed := map[int]bool{}
			racingAPI := false
			for _, p := range c.Peers {
				if strings.HasSuffix(p.Park, "-due") {
					// return at the virtual instant the next dial is launched: the FSM is
					// then between dialPeer() and the peer manager's acknowledgement
					w.Net.WaitDials(len(w.Net.Dials())+1, 20*time.Second)
					break
				}
			}
			if c.ArmPoint != "" {
				w.Arm(c.ArmPoint, c.ArmSkip, c.ArmD)
			}
			burstStart := w.Net.NextSeq()
			fireConc := func() {
				for _, x := range c.Conc {
					if x.Peer >= len(specs) {
						continue
					}
					sp := specs[x.Peer]
					cn := conns[fmt.Sprintf("%d/%s", x.Peer, x.Dir)]
					switch x.Kind {
					case "release":
						for _, rc := range w.Net.Release(sp.RemoteAddr()) {
							touched[rc.ID] = true
						}
						continue
					case "connect":
						nc := w.Inbound(sp.Remote, "10.0.0.1")
						touched[nc.ID] = true
						continue
					case "write":
						wg.Add(1)
						go func() {
							defer wg.Done()
							w.WriteUpdate(sp.Remote, 0, 77, tagBody(x.Peer, 0, 77, 0, 30))
						}()
						continue
					case "del", "add":
						if c.API == "del-add" {
							continue // the re-add probe would be ambiguous
						}
						// another API call racing the stop under test
						wg.Add(1)
						go func(kind string) {
							defer wg.Done()
							if kind == "del" {
								w.Srv.DeletePeer(sp.RemoteAddr())
							} else {
								w.AddPeer(sp)
							}
						}(x.Kind)
						racingAPI = true
						continue
					}
					if cn == nil {
						continue
					}
					// a message that is legal progress in the connection's state
					// does not end it: the stop must still send its Cease. Anything
					// else may end the connection on its own account.
					legal := (x.Kind == "open" && fine[cn.ID] == stOpenSent) ||
						(x.Kind == "keepalive" && fine[cn.ID] != stOpenSent) ||
						(x.Kind == "update" && fine[cn.ID] == stEstablished)
					if partialConn[cn.ID] {
						legal = false
					}
					if !legal || progressed[cn.ID] {
						touched[cn.ID] = true
					}
					progressed[cn.ID] = true // a second event meets a state we did not observe
					switch x.Kind {
					case "open":
						cn.RemoteSend(world.RemoteOpen(sp, cn, 90, 0x0a000002).Frame(), nil)
					case "keepalive":
						cn.RemoteSend(wire.Keepalive(), nil)
					case "update":
						cn.RemoteSend(wire.Frame(wire.TypeUpdate, []byte{0, 0, 0, 0}), nil)
					case "notif":
						cn.RemoteSend(wire.Notif{Code: 6, Sub: 2}.Frame(), nil)
					case "rclose":
						cn.RemoteClose()
					case "rreset":
						cn.RemoteReset()
					}
				}
			}
			// the stop burst
			evBefore := w.Rec.Len()
			_ = evBefore
			var apiErr error
			var returned bool
			var took time.Duration
			var retSeq int64
			lisErr := errors.New("injected listener failure")
			close(startWriters)
			if !c.Late {
				fireConc()
			}
			done := make(chan struct{})
			start := w.Net.Since()
			go func() {
				switch c.API {
				case "close":
					w.Srv.Close()
				case "del", "del-add":
					apiErr = w.Srv.DeletePeer(specs[0].RemoteAddr())
				case "liserr":
					w.Lis.InjectError(lisErr)
					<-w.ServeDone()
				}
				retSeq = w.Net.NextSeq()
				close(done)
			}()
			if c.Late {
				fireConc()
			}
			tm := time.NewTimer(5 * time.Second)
			select {
			case <-done:
				returned = true
				tm.Stop()
			case <-tm.C:
			}
			took = w.Net.Since() - start
			if !returned {
				fail("stop-blocked", "%s did not return within 5 virtual seconds (parks %s, concurrent %s)", c.API, parks, concs)
				return
			}
			if apiErr != nil && !racingAPI {
				fail("stop-error", "DeletePeer returned %v", apiErr)
				return
			}
			if apiErr != nil {
				return // a racing DeletePeer got there first: nothing to claim about this call
			}
			_ = took
			// callbacks for affected peers that started after the return
			close(stopWriters)
			w.Settle()
			if c.API == "close" || c.API == "liserr" {
				ret, serr := w.ServeReturned()
				want := error(corebgp.ErrServerClosed)
				if !ret {
					fail("serve-not-returned", "after %s Serve has not returned", c.API)
					return
				}
				if c.API == "close" && !errors.Is(serr, want) {
					fail("serve-error", "after Close Serve returned %v", serr)
					return
				}
				if c.API == "liserr" && (serr == nil || !strings.Contains(serr.Error(), lisErr.Error())) {
					fail("serve-error", "after a listener failure Serve returned %v", serr)
					return
				}
			}
			racingAdd := map[string]bool{}
			for _, x := range c.Conc {
				if x.Kind == "add" && x.Peer < len(specs) && c.API != "del-add" {
					racingAdd[specs[x.Peer].Remote] = true
				}
			}
			// every connection of the affected peers is closed; the parked ones got a Cease first
			for _, cn := range w.Net.Conns() {
				st := cn.Snapshot()
				peer := st.Remote.Addr().String()
				if !affected[peer] {
					continue
				}
				if racingAdd[peer] && st.CreatedS > burstStart && c.API != "close" && c.API != "liserr" {
					continue // belongs to the registration a racing AddPeer created
				}
				if !st.LocalClosed {
					fail("connection-left-open", "after %s returned, connection %d (%s, handed over: %v) of peer %s is still open", c.API, st.ID, map[bool]string{true: "inbound", false: "outbound"}[st.Inbound], st.HandedOver, peer)
					return
				}
				// "by the time they return": a connection that existed before the
				// burst must have been closed before the call returned (sequence
				// numbers, not the settled state afterwards)
				if st.CreatedS < burstStart && st.HandedOver && st.CloseSeq > retSeq && c.API != "del-add" {
					fail("connection-closed-after-return", "connection %d of peer %s was closed (#%d) only after %s had returned (#%d)", st.ID, peer, st.CloseSeq, c.API, retSeq)
					return
				}
				if stage[st.ID] == "session" && !touched[st.ID] {
					msgs, perr := wire.ParseStream(st.Bytes())
					if perr != nil {
						fail("malformed-output", "%v", perr)
						return
					}
					// a Cease must have been sent before the close; UPDATEs of
					// concurrent WriteUpdate callers may still follow it
					k := len(msgs) - 1
					for k > 0 && msgs[k].Type == wire.TypeUpdate {
						k--
					}
					last := msgs[k]
					n, _ := wire.ParseNotif(last.Body)
					if last.Type != wire.TypeNotification || n.Code != 6 {
						fail("no-cease", "connection %d of peer %s was in OpenSent/OpenConfirm/Established when %s was called; it was closed without a Cease NOTIFICATION (last non-UPDATE message: type %d %v)", st.ID, peer, c.API, last.Type, n)
						return
					}
				}
			}
			// OnClose delivered before the return, nothing afterwards
			type ps struct{ est, closed int }
			hist := map[string]*ps{}
			for _, e := range w.Rec.Events() {
				if hist[e.Peer] == nil {
					hist[e.Peer] = &ps{}
				}
				switch e.K {
				case "est+":
					hist[e.Peer].est++
				case "close-":
					if e.Seq < retSeq {
						hist[e.Peer].closed++
					}
				}
				if e.Seq > retSeq && affected[e.Peer] && isCallbackStart(e.K) && c.API != "del-add" && !racingAdd[e.Peer] {
					fail("callback-after-stop", "peer %s: callback %s (#%d) started after %s returned (#%d)", e.Peer, e.K, e.Seq, c.API, retSeq)
					return
				}
			}
			for peer, h := range hist {
				if affected[peer] && h.est != h.closed {
					fail("onclose-not-delivered", "peer %s: %d sessions were Established, %d OnClose calls had completed when %s returned", peer, h.est, h.closed, c.API)
					return
				}
			}
			// no goroutine of corebgp left for the affected peers
			if len(affected) == len(specs) && c.API != "del-add" && !(len(racingAdd) > 0 && c.API == "del") {
				if n, sample := corebgpGoroutines(); n != 0 {
					// a goroutine may need an instant to unwind after closing its done channel
					w.Advance(time.Millisecond)
					if n2, sample2 := corebgpGoroutines(); n2 != 0 {
						_ = sample
						fail("goroutine-leak", "%d peer/FSM goroutines are still alive after %s returned:\n%s", n2, c.API, sample2)
						return
					}
				}
			}
			// unaffected peers keep working
			for i, sp := range specs {
				if affected[sp.Remote] || !estBefore[sp.Remote] {
					continue
				}
				hit := false
				for _, x := range c.Conc {
					if x.Peer == i {
						hit = true // the burst itself sent something to this peer's session
					}
				}
				if hit {
					continue
				}
				var cn *memnet.Conn
				for _, d := range []string{"in", "out"} {
					if x := conns[fmt.Sprintf("%d/%s", i, d)]; x != nil && !x.Snapshot().LocalClosed {
						cn = x
					}
				}
				tag := taggedUpdate(uint32(0x10000000+i), 12)
				ok := false
				if cn != nil {
					if rest := partialRest[cn.ID]; rest != nil {
						cn.RemoteSend(rest, nil) // complete the pending message first
						w.Settle()
					}
					cn.RemoteSend(wire.Frame(wire.TypeUpdate, tag), nil)
					w.Settle()
					for _, e := range w.Rec.Events() {
						if e.K == "upd+" && bytes.Equal(e.Data, tag) {
							ok = true
						}
					}
				}
				if !ok {
					fail("unaffected-peer-disturbed", "after DeletePeer(%s) the Established session of %s no longer delivers UPDATEs", specs[0].Remote, sp.Remote)
					return
				}
			}
			// quiet for 10 virtual minutes
			nEv := w.Rec.Len()
			nDial := len(w.Net.Dials())
			if c.API != "del-add" {
				w.Advance(10 * time.Minute)
				for _, e := range w.Rec.Events()[nEv:] {
					if affected[e.Peer] && isCallbackStart(e.K) && !(racingAdd[e.Peer] && c.API != "close" && c.API != "liserr") {
						fail("callback-after-stop", "peer %s: callback %s at %v, long after %s returned", e.Peer, e.K, e.T, c.API)
						return
					}
				}
				for _, d := range w.Net.Dials()[nDial:] {
					if affected[d.Remote.String()] && !(racingAdd[d.Remote.String()] && c.API != "close" && c.API != "liserr") {
						fail("dial-after-stop", "peer %s: dial attempt at %v, after %s returned", d.Remote, d.At, c.API)
						return
					}
				}
			} else {
				// re-add: the peer must operate again
				sp := specs[0]
				if err := w.AddPeer(sp); err != nil && !(racingAdd[sp.Remote] && errors.Is(err, corebgp.ErrPeerAlreadyExists)) {
					fail("re-add", "AddPeer after DeletePeer: %v", err)
					return
				}
				w.Settle()
				cn := w.Inbound(sp.Remote, "10.0.0.1")
				w.Settle()
				if len(cn.Snapshot().Bytes()) == 0 {
					// an active peer may have an outbound attempt; accept either path
					if sp.Passive {
						fail("re-add-dead", "after DeletePeer+AddPeer an inbound connection gets no OPEN")
						return
					}
				} else {
					for _, m := range handshakeBytes(sp, cn, stEstablished, 90) {
						cn.RemoteSend(m, nil)
						w.Settle()
					}
					if w.Sessions(sp.Remote) == 0 {
						fail("re-add-dead", "after DeletePeer+AddPeer a full handshake does not establish")
						return
					}
				}
			}
			wdone := make(chan struct{})
			go func() { wg.Wait(); close(wdone) }()
			tm2 := time.NewTimer(10 * time.Second)
			select {
			case <-wdone:
				tm2.Stop()
			case <-tm2.C:
				fail("writer-blocked", "WriteUpdate callers are still blocked 10 virtual seconds after the stop")
			}
		})
		if b := o.Bad(); b != "" {
			fail("wedge", "%s", b)
		}
		v.Dev = dev
		return v
	}
}

var c10Parks = []string{"idle-due", "active-due", "twins-in", "opensent-in-partial", "established-in-partial", "opensent-out-partial", "established-out-partial", "idle", "dial-stalled", "dial-held", "active", "opensent-out", "openconfirm-out", "established-out",
	"opensent-in", "openconfirm-in", "established-in", "collision", "collision2", "held-down", "writers-in", "writers-out"}

// ---- the stop arrives at the instant a session timer fires

// An Established session with hold time 3: the keepalive timer fires one virtual second
// after the handshake, the hold timer after three (the remote stays silent). The stop is
// called at that very instant, a drawn number of microseconds into the (slowed down)
// write of the KEEPALIVE / the Hold Timer Expired NOTIFICATION.
type c10TimerDue struct {
	Timer   string `json:"timer"` // keepalive, hold
	API     string `json:"api"`   // close, del
	Out     bool   `json:"out"`
	SpinUs  int64  `json:"spin_us"`  // duration of corebgp's writes
	AfterUs int64  `json:"after_us"` // real-time delay between the timer instant and the call
	RHold   uint16 `json:"rhold"`    // the remote's hold time (3: timers as described; 0 is not used here)
}

func c10TimerDueProp(t *testing.T, r *hx.Run, sub string) func(c c10TimerDue) hx.Verdict {
	return func(c c10TimerDue) hx.Verdict {
		r.SetCurrent(sub, c)
		v := hx.Verdict{Class: fmt.Sprintf("%s/%s/out=%v", c.Timer, c.API, c.Out)}
		v.NT = fmt.Sprintf("%+v", c)
		p := world.PeerSpec{Remote: "10.0.0.2", LocalAS: 64512, RemoteAS: 64513, Passive: !c.Out, Hold: 3, IdleHoldMs: 5000, ConnRetryMs: 5000}
		var dev *hx.Dev
		fail := func(key, f string, a ...any) {
			if dev == nil {
				dev = hx.Devf(key, f, a...)
			}
		}
		o, serr := world.Single(t, "10.0.0.1", p, c.Out, nil, func(w *world.World, conn *memnet.Conn) {
			world.Handshake(w, p, conn, c.RHold, 0x0a000002)
			if w.Sessions(p.Remote) != 1 {
				fail("setup", "session did not establish")
				return
			}
			w.Net.SetWriteSpin(c.SpinUs)
			defer w.Net.SetWriteSpin(0)
			d := time.Second
			if c.Timer == "hold" {
				d = 3 * time.Second
			}
			time.Sleep(d) // wakes at the virtual instant the timer fires
			memnet.Spin(c.AfterUs)
			var ok bool
			var took time.Duration
			if c.API == "close" {
				ok, took = w.Call("Close", "", 5*time.Second, w.Srv.Close)
			} else {
				ok, took = w.Call("DeletePeer", p.Remote, 5*time.Second, func() { w.Srv.DeletePeer(p.RemoteAddr()) })
			}
			if !ok {
				fail("stop-blocked", "%s called at the instant the %s timer fired did not return within %v", c.API, c.Timer, took)
				return
			}
			nEst, nClose := 0, 0
			for _, e := range w.Rec.Events() {
				switch e.K {
				case "est+":
					nEst++
				case "close-":
					nClose++
				}
			}
			if nClose != nEst {
				fail("onclose-missing", "after %s returned: %d OnEstablished, %d OnClose finished", c.API, nEst, nClose)
				return
			}
			if !conn.Snapshot().LocalClosed {
				fail("connection-left-open", "after %s returned the session's connection is still open", c.API)
				return
			}
			if _, perr := world.Parsed(conn); perr != nil {
				fail("malformed-stream", "%v", perr)
			}
		})
		if serr != nil {
			fail("setup", "%v", serr)
		}
		if b := o.Bad(); b != "" {
			fail("wedge", "%s", b)
		}
		v.Dev = dev
		return v
	}
}

// ---- Close before (or racing) the start of Serve

type c10Early struct {
	Racing  bool  `json:"racing"`   // Serve is started in a goroutine of its own right before Close is called
	Peers   int   `json:"peers"`    // 1-2 peers, the first active (its dial would be accepted), the second passive
	AfterUs int64 `json:"after_us"` // racing: real-time delay between starting Serve and calling Close
}

func c10EarlyProp(t *testing.T, r *hx.Run, sub string) func(c c10Early) hx.Verdict {
	return func(c c10Early) hx.Verdict {
		r.SetCurrent(sub, c)
		v := hx.Verdict{Class: fmt.Sprintf("racing=%v/peers=%d", c.Racing, c.Peers)}
		v.NT = fmt.Sprintf("%+v", c)
		var dev *hx.Dev
		fail := func(key, f string, a ...any) {
			if dev == nil {
				dev = hx.Devf(key, f, a...)
			}
		}
		o := world.Run(t, func() {
			w, err := world.New("10.0.0.1", nil)
			if err != nil {
				fail("setup", "%v", err)
				return
			}
			defer w.Finish()
			for i := 0; i < c.Peers; i++ {
				sp := world.PeerSpec{Remote: fmt.Sprintf("10.0.0.%d", 2+i), LocalAS: 64512, RemoteAS: uint32(64600 + i), Hold: 90, Passive: i == 1, IdleHoldMs: 1000, ConnRetryMs: 1000}
				w.Net.SetPlans(sp.RemoteAddr(), memnet.DialPlan{Kind: memnet.Accept})
				if err := w.AddPeer(sp); err != nil {
					fail("setup", "%v", err)
					return
				}
			}
			if c.Racing {
				w.Serve()
				memnet.Spin(c.AfterUs)
			}
			ok, took := w.Call("Close", "", 5*time.Second, w.Srv.Close)
			if !ok {
				fail("stop-blocked", "Close did not return within %v", took)
				return
			}
			evAtReturn := w.Rec.Len()
			if !c.Racing {
				w.Serve()
			}
			w.Advance(3 * time.Second)
			ret, serr := w.ServeReturned()
			if !ret || !errors.Is(serr, corebgp.ErrServerClosed) {
				fail("serve-not-stopped", "Close returned, yet 3 s later Serve: returned=%v err=%v (%d dial attempts, %d plugin events since Close returned)", ret, serr, len(w.Net.Dials()), w.Rec.Len()-evAtReturn)
				return
			}
			for _, cn := range w.Net.Conns() {
				if st := cn.Snapshot(); st.HandedOver && !st.LocalClosed {
					fail("connection-left-open", "after Close and Serve returned, connection %d is still open", st.ID)
					return
				}
			}
			for _, e := range w.Rec.Events()[evAtReturn:] {
				if isCallbackStart(e.K) {
					fail("callback-after-stop", "plugin callback %s started after Close had returned", e.K)
					return
				}
			}
		})
		if b := o.Bad(); b != "" {
			fail("wedge", "%s", b)
		}
		v.Dev = dev
		return v
	}
}

// ---- a stop after an OPEN that could not be built

// The plugin's first Firsts capability lists cannot be represented: corebgp dials, cannot build
// its OPEN, drops the connection and tries again after the idle-hold time; the next list is fine
// and the connection reaches OpenSent. Then the stop: every connection corebgp ever made for the
// peer is closed when it returns.
type c10Unenc struct {
	API    string `json:"api"` // close, del
	Firsts int    `json:"firsts"`
}

func c10UnencProp(t *testing.T, r *hx.Run, sub string) func(c c10Unenc) hx.Verdict {
	return func(c c10Unenc) hx.Verdict {
		r.SetCurrent(sub, c)
		v := hx.Verdict{Class: fmt.Sprintf("%s/firsts=%d", c.API, c.Firsts)}
		v.NT = fmt.Sprintf("%+v", c)
		p := world.PeerSpec{Remote: "10.0.0.2", LocalAS: 64512, RemoteAS: 64513, Hold: 90, IdleHoldMs: 100, ConnRetryMs: 5000,
			Plugin: world.PluginSpec{BigCapsFirst: c.Firsts}}
		var dev *hx.Dev
		fail := func(key, f string, a ...any) {
			if dev == nil {
				dev = hx.Devf(key, f, a...)
			}
		}
		o := world.Run(t, func() {
			w, err := world.New("10.0.0.1", nil)
			if err != nil {
				fail("setup", "%v", err)
				return
			}
			defer w.Finish()
			w.Net.SetPlans(p.RemoteAddr(), memnet.DialPlan{Kind: memnet.Accept})
			if err := w.AddPeer(p); err != nil {
				fail("setup", "%v", err)
				return
			}
			w.Serve()
			w.Settle()
			if !w.Net.WaitDials(c.Firsts+1, time.Minute) {
				fail("setup", "corebgp made %d dial attempts, %d expected", len(w.Net.Dials()), c.Firsts+1)
				return
			}
			w.Settle()
			var ok bool
			var took time.Duration
			if c.API == "close" {
				ok, took = w.Call("Close", "", 5*time.Second, w.Srv.Close)
			} else {
				ok, took = w.Call("DeletePeer", p.Remote, 5*time.Second, func() { w.Srv.DeletePeer(p.RemoteAddr()) })
			}
			if !ok {
				fail("stop-blocked", "%s did not return within %v", c.API, took)
				return
			}
			for _, cn := range w.Net.Conns() {
				if st := cn.Snapshot(); st.HandedOver && !st.LocalClosed {
					fail("connection-left-open", "after %s returned, connection %d (dialled at %v; %d octets written on it) is still open", c.API, st.ID, st.CreatedS, len(st.Bytes()))
					return
				}
			}
		})
		if b := o.Bad(); b != "" {
			fail("wedge", "%s", b)
		}
		v.Dev = dev
		return v
	}
}

// ---- two overlapping Close calls

// A session is Established; closing the listener takes a while (SpinUs). A second Close is
// called AfterUs into the first: whichever call returns, every OnEstablished has its OnClose
// by then and the connection is closed.
type c10Twice struct {
	Out     bool  `json:"out"`
	SpinUs  int64 `json:"spin_us"`
	AfterUs int64 `json:"after_us"`
}

func c10TwiceProp(t *testing.T, r *hx.Run, sub string) func(c c10Twice) hx.Verdict {
	return func(c c10Twice) hx.Verdict {
		r.SetCurrent(sub, c)
		v := hx.Verdict{Class: fmt.Sprintf("out=%v", c.Out)}
		v.NT = fmt.Sprintf("%+v", c)
		p := world.PeerSpec{Remote: "10.0.0.2", LocalAS: 64512, RemoteAS: 64513, Passive: !c.Out, Hold: 90, IdleHoldMs: 5000, ConnRetryMs: 5000}
		var dev *hx.Dev
		fail := func(key, f string, a ...any) {
			if dev == nil {
				dev = hx.Devf(key, f, a...)
			}
		}
		o, serr := world.Single(t, "10.0.0.1", p, c.Out, nil, func(w *world.World, conn *memnet.Conn) {
			world.Handshake(w, p, conn, 90, 0x0a000002)
			if w.Sessions(p.Remote) != 1 {
				fail("setup", "session did not establish")
				return
			}
			w.Lis.SetCloseSpin(c.SpinUs)
			first := w.Go("Close#1", "", w.Srv.Close)
			memnet.Spin(c.AfterUs)
			ok, took := w.Call("Close#2", "", 5*time.Second, w.Srv.Close)
			if !ok {
				fail("stop-blocked", "the second Close did not return within %v", took)
				return
			}
			nEst, nClose := 0, 0
			for _, e := range w.Rec.Events() {
				switch e.K {
				case "est+":
					nEst++
				case "close-":
					nClose++
				}
			}
			closed := conn.Snapshot().LocalClosed
			<-first
			if nClose != nEst {
				fail("onclose-missing", "the second of two overlapping Close calls returned with %d OnEstablished and %d finished OnClose", nEst, nClose)
				return
			}
			if !closed {
				fail("connection-left-open", "the second of two overlapping Close calls returned while the session's connection was still open")
			}
		})
		if serr != nil {
			fail("setup", "%v", serr)
		}
		if b := o.Bad(); b != "" {
			fail("wedge", "%s", b)
		}
		v.Dev = dev
		return v
	}
}

func genC10(rt *rapid.T) c10Case {
	c := c10Case{API: pick(rt, "api", "close", "close", "del", "del", "del-add", "liserr")}
	c.Listeners = pick(rt, "listeners", 0, 0, 1, 2)
	n := rapid.IntRange(1, 3).Draw(rt, "npeers")
	for i := 0; i < n; i++ {
		p := c10Peer{Park: c10Parks[rapid.IntRange(0, len(c10Parks)-1).Draw(rt, "park")], Passive: rapid.Bool().Draw(rt, "passive"),
			Hold0: rapid.IntRange(0, 3).Draw(rt, "hold0") == 0, RHold0: rapid.IntRange(0, 3).Draw(rt, "rhold0") == 0}
		if rapid.IntRange(0, 5).Draw(rt, "spin") == 0 {
			p.SpinCb = pick(rt, "spincb", "caps", "open", "est", "upd", "close")
			p.SpinLong = rapid.Bool().Draw(rt, "spinlong")
		}
		c.Peers = append(c.Peers, p)
	}
	for i, k := 0, rapid.IntRange(0, 3).Draw(rt, "nconc"); i < k; i++ {
		c.Conc = append(c.Conc, c10Conc{Kind: pick(rt, "ckind", "open", "keepalive", "update", "notif", "rclose", "rreset", "release", "release", "connect", "write", "del", "del", "add"),
			Peer: rapid.IntRange(0, n-1).Draw(rt, "cpeer"), Dir: pick(rt, "cdir", "in", "out")})
	}
	if rapid.IntRange(0, 2).Draw(rt, "delays") == 0 {
		hi := int64(3)
		for _, p := range c.Peers {
			if strings.HasSuffix(p.Park, "-due") {
				hi = 60 // long enough for the stop to overtake the FSM at a schedule point
			}
		}
		for i, k := 0, rapid.IntRange(1, 8).Draw(rt, "ndelays"); i < k; i++ {
			c.Delays = append(c.Delays, pick(rt, "delay", 0, 0, 1, 2, 3, hi))
		}
	}
	c.Late = rapid.Bool().Draw(rt, "late")
	return c
}

func TestC10(t *testing.T) {
	r := hx.Start(t, "C10")
	defer r.Finish(t)

	// every park point x every API, alone and with a dial release / inbound connect racing the stop
	hx.Enum(r, t, "every_point_x_api", 0, func(yield func(c10Case) bool) {
		for _, park := range c10Parks {
			for _, api := range []string{"close", "del", "del-add", "liserr"} {
				for _, conc := range [][]c10Conc{nil, {{Kind: "release", Peer: 0, Dir: "out"}}, {{Kind: "connect", Peer: 0, Dir: "in"}}, {{Kind: "keepalive", Peer: 0, Dir: "in"}, {Kind: "open", Peer: 0, Dir: "out"}}} {
					for _, late := range []bool{false, true} {
						if !yield(c10Case{Peers: []c10Peer{{Park: park}}, API: api, Conc: conc, Late: late}) {
							return
						}
					}
				}
				// another DeletePeer racing the stop while a callback dawdles
				for _, spin := range []string{"open", "est", "caps", "upd"} {
					for _, conc := range [][]c10Conc{
						{{Kind: "del", Peer: 0}},
						{{Kind: "open", Peer: 0, Dir: "in"}, {Kind: "open", Peer: 0, Dir: "out"}, {Kind: "del", Peer: 0}},
						{{Kind: "keepalive", Peer: 0, Dir: "in"}, {Kind: "keepalive", Peer: 0, Dir: "out"}, {Kind: "del", Peer: 0}},
						{{Kind: "update", Peer: 0, Dir: "in"}, {Kind: "update", Peer: 0, Dir: "out"}, {Kind: "del", Peer: 0}},
					} {
						if !yield(c10Case{Peers: []c10Peer{{Park: park, SpinCb: spin, SpinLong: true}}, API: api, Conc: conc}) {
							return
						}
					}
				}
			}
		}
	}, c10Prop(t, r, "every_point_x_api"))

	// the stop arrives while a connection makes legal progress, with the FSM held between the peer
	// manager's approval of the transition and the entry into the new state (and at the other points)
	hx.Enum(r, t, "stop_while_entering_a_state", 0, func(yield func(c10Case) bool) {
		type pe struct {
			park string
			conc c10Conc
		}
		for _, x := range []pe{
			{"openconfirm-in", c10Conc{Kind: "keepalive", Peer: 0, Dir: "in"}}, {"openconfirm-out", c10Conc{Kind: "keepalive", Peer: 0, Dir: "out"}},
			{"opensent-in", c10Conc{Kind: "open", Peer: 0, Dir: "in"}}, {"opensent-out", c10Conc{Kind: "open", Peer: 0, Dir: "out"}},
		} {
			for _, api := range []string{"close", "del"} {
				for _, pt := range []string{"fsm.enter", "fsm.transition", "peer.loop"} {
					for skip := 0; skip < 3; skip++ {
						for _, d := range []int64{10, 50, 150} {
							if !yield(c10Case{Peers: []c10Peer{{Park: x.park}}, API: api, Conc: []c10Conc{x.conc}, ArmPoint: pt, ArmSkip: skip, ArmD: d}) {
								return
							}
						}
					}
				}
			}
		}
	}, c10Prop(t, r, "stop_while_entering_a_state"))

	// the stop arrives at the instant a timer launches the next (successful) dial,
	// with the FSM / the peer manager held at their schedule points for a while
	hx.Enum(r, t, "stop_when_dial_is_due", 0, func(yield func(c10Case) bool) {
		for _, park := range []string{"idle-due", "active-due"} {
			for _, api := range []string{"close", "del", "del-add", "liserr"} {
				for _, delays := range [][]int64{nil, {50}, {0, 50}, {50, 0}, {0, 0, 50}, {12, 0, 0}, {100}, {3}} {
					for _, spin := range []int64{0, 100} {
						for _, late := range []bool{false, true} {
							if !yield(c10Case{Peers: []c10Peer{{Park: park, SpinUs: spin}}, API: api, Delays: delays, Late: late}) {
								return
							}
						}
					}
				}
			}
		}
	}, c10Prop(t, r, "stop_when_dial_is_due"))

	hx.Enum(r, t, "stop_after_unencodable_open", 0, func(yield func(c10Unenc) bool) {
		for _, api := range []string{"close", "del"} {
			for _, firsts := range []int{1, 2, 3} {
				if !yield(c10Unenc{API: api, Firsts: firsts}) {
					return
				}
			}
		}
	}, c10UnencProp(t, r, "stop_after_unencodable_open"))

	hx.Enum(r, t, "two_closes", 0, func(yield func(c10Twice) bool) {
		for _, out := range []bool{false, true} {
			for _, spin := range []int64{200, 600} {
				for _, after := range []int64{0, 10, 40, 100, 150, 300} {
					if !yield(c10Twice{Out: out, SpinUs: spin, AfterUs: after}) {
						return
					}
				}
			}
		}
	}, c10TwiceProp(t, r, "two_closes"))

	hx.Enum(r, t, "close_before_serve", 0, func(yield func(c10Early) bool) {
		for rep := 0; rep < 6; rep++ {
			for _, peers := range []int{1, 2} {
				if !yield(c10Early{Peers: peers}) {
					return
				}
				for _, after := range []int64{0, 1, 5, 20, 60} {
					if !yield(c10Early{Racing: true, Peers: peers, AfterUs: after}) {
						return
					}
				}
			}
		}
	}, c10EarlyProp(t, r, "close_before_serve"))

	hx.Enum(r, t, "stop_when_session_timer_is_due", 0, func(yield func(c10TimerDue) bool) {
		for _, timer := range []string{"keepalive", "hold"} {
			for _, api := range []string{"close", "del"} {
				for _, out := range []bool{false, true} {
					for _, spin := range []int64{100, 300} {
						for _, after := range []int64{0, 10, 40, 120} {
							if !yield(c10TimerDue{Timer: timer, API: api, Out: out, SpinUs: spin, AfterUs: after, RHold: 3}) {
								return
							}
						}
					}
				}
			}
		}
	}, c10TimerDueProp(t, r, "stop_when_session_timer_is_due"))

	hx.Rapid(r, t, "stop_at_every_point", r.N(2500, 25000), genC10, c10Prop(t, r, "stop_at_every_point"))

	// several sessions per FSM object with a reactive remote and no harness
	// step in between: what the race detector needs to see accesses of
	// different sessions as unordered (C01/C04 invariants as the functional oracle)
	hx.Rapid(r, t, "free_running_sessions", r.N(600, 8000), genFreeRunning, frProp(t, r, "free_running_sessions"))

	// thousands of connect-retry expiries with stalled / just-finishing dials:
	// the FSM and its dial goroutines under the race detector
	hx.Rapid(r, t, "dial_retry_storm", r.N(30, 600), genC05Storm, c05StormProp(t, r, "dial_retry_storm"))
}

var _ = netip.Addr{}
