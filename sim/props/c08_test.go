package props

import (
	"bytes"
	"encoding/binary"
	"fmt"
	"iter"
	"sync"
	"testing"
	"time"

	"pgregory.net/rapid"

	"verif/sim/hx"
	"verif/sim/memnet"
	"verif/sim/wire"
	"verif/sim/world"
)

// C08 - receive-side header validation and stream framing; NOTIFICATIONs
// corebgp sends reach the wire verbatim.

const (
	stOpenSent    = "opensent"
	stOpenConfirm = "openconfirm"
	stEstablished = "established"
)

var allStates = []string{stOpenSent, stOpenConfirm, stEstablished}

// basePeer is the peer configuration used by the single-session checks.
func basePeer(out bool) world.PeerSpec {
	return world.PeerSpec{Remote: "10.0.0.2", LocalAS: 64512, RemoteAS: 64513, Passive: !out, Hold: 90}
}

// handshakeBytes are the messages the remote sends to move a connection from
// OpenSent to the target state.
func handshakeBytes(p world.PeerSpec, c *memnet.Conn, state string, hold uint16) [][]byte {
	switch state {
	case stOpenConfirm:
		return [][]byte{world.RemoteOpen(p, c, hold, 0x0a000002).Frame()}
	case stEstablished:
		return [][]byte{world.RemoteOpen(p, c, hold, 0x0a000002).Frame(), wire.Keepalive()}
	}
	return nil
}

func taggedUpdate(tag uint32, n int) []byte {
	b := make([]byte, n)
	for i := range b {
		b[i] = byte(tag>>uint(8*(i%4))) ^ byte(i*31)
	}
	if n >= 4 {
		binary.BigEndian.PutUint32(b, tag)
	}
	return b
}

type c08Case struct {
	State  string `json:"state"`
	Out    bool   `json:"out"`
	Shared bool   `json:"shared"` // handshake + prefix + fault delivered as one stream (else handshake settled first)
	// Prefix: lengths of tagged UPDATE bodies (>=0) or -1 for a KEEPALIVE,
	// sent before the header under test (Established only)
	Prefix []int  `json:"prefix,omitempty"`
	Marker hx.Hex `json:"marker"` // 16 octets
	Len    uint16 `json:"len"`
	Type   uint8  `json:"type"`
	// BodyLen bytes follow the header (for valid lengths: Len-19)
	BodyLen int    `json:"body_len"`
	Cuts    []int  `json:"cuts,omitempty"`
	Field   string `json:"field"`           // which field the generator perturbed (for the class)
	Hold0   bool   `json:"hold0,omitempty"` // the peer is configured with hold time 0
	// Prev: earlier sessions of the same peer (outbound: on the same FSM object); what
	// they received must have no bearing on the connection under test
	Prev []world.PrevSession `json:"prev,omitempty"`
}

func (c c08Case) faults() (marker, length, typ bool) {
	for _, m := range c.Marker {
		if m != 0xFF {
			marker = true
		}
	}
	length = c.Len < 19 || c.Len > 4096
	typ = c.Type < 1 || c.Type > 4
	return
}

func c08Prop(t *testing.T, r *hx.Run, sub string) func(c c08Case) hx.Verdict {
	return func(c c08Case) hx.Verdict {
		r.SetCurrent(sub, c)
		fm, fl, ft := c.faults()
		dir := "in"
		if c.Out {
			dir = "out"
		}
		v := hx.Verdict{Class: fmt.Sprintf("%s/%s/%s/m=%v,l=%v,t=%v", c.State, dir, c.Field, fm, fl, ft)}
		nf := 0
		for _, f := range []bool{fm, fl, ft} {
			if f {
				nf++
			}
		}
		if nf <= 1 {
			v.NT = fmt.Sprintf("%s/%s/%x/%d/%d/%v/%v", c.State, dir, []byte(c.Marker), c.Len, c.Type, c.Shared, c.Prefix)
		}
		anyFault := fm || fl || ft
		// a valid header of another type / in another state: what the message leads to is C02's
		// and C09's business, but it must be delimited by its length field and it cannot be
		// answered with a NOTIFICATION about a marker or a type that were fine
		odd := !anyFault && !(c.State == stEstablished && c.Type == wire.TypeUpdate)
		if odd {
			v.Class += "/valid-header-other"
		}
		p := basePeer(c.Out)
		if c.Hold0 {
			p.Hold = 0
		}
		var dev *hx.Dev
		fail := func(key, f string, a ...any) {
			if dev == nil {
				dev = hx.Devf(key, f, a...)
			}
		}
		o, serr := world.SinglePrev(t, "10.0.0.1", p, c.Out, nil, c.Prev, func(w *world.World, conn *memnet.Conn) {
			evBase := len(w.Rec.Events())
			var stream []byte
			for _, m := range handshakeBytes(p, conn, c.State, 90) {
				if c.Shared {
					stream = append(stream, m...)
				} else {
					conn.RemoteSend(m, nil)
					w.Settle()
				}
			}
			var wantUpd [][]byte
			for i, n := range c.Prefix {
				if n < 0 {
					stream = append(stream, wire.Keepalive()...)
				} else {
					b := taggedUpdate(uint32(0xA0000000+i), n)
					wantUpd = append(wantUpd, b)
					stream = append(stream, wire.Frame(wire.TypeUpdate, b)...)
				}
			}
			var mk [16]byte
			copy(mk[:], c.Marker)
			stream = append(stream, wire.RawHeader(mk, c.Len, c.Type)...)
			body := taggedUpdate(0xB0000000, c.BodyLen)
			stream = append(stream, body...)
			trailer := taggedUpdate(0xC0000000, 11)
			stream = append(stream, wire.Frame(wire.TypeUpdate, trailer)...)
			conn.RemoteSend(stream, c.Cuts)
			w.Settle()

			msgs, perr := world.Parsed(conn)
			if perr != nil {
				fail("malformed-output", "corebgp's byte stream is not whole messages: %v", perr)
				return
			}
			// messages corebgp is expected to have sent before reacting
			want := 1 // its OPEN
			if c.State != stOpenSent {
				want++ // KEEPALIVE answering the remote's OPEN
			}
			if len(msgs) < want {
				fail("prefix-not-processed", "expected %d messages from corebgp before the reaction (the well-formed prefix must take effect), got %d", want, len(msgs))
				return
			}
			after := msgs[want:]
			var upds [][]byte
			est := 0
			for _, e := range w.Rec.Events()[evBase:] {
				switch e.K {
				case "upd+":
					upds = append(upds, e.Data)
				case "est+":
					est++
				}
			}
			if c.State == stEstablished && est != 1 {
				fail("prefix-not-processed", "the handshake preceding the header under test did not establish the session (OnEstablished x%d)", est)
				return
			}
			if c.State != stEstablished && est != 0 && !odd {
				fail("established-unexpectedly", "OnEstablished fired in state %s", c.State)
				return
			}
			st := conn.Snapshot()
			if odd {
				if len(upds) < len(wantUpd) {
					fail("prefix-not-processed", "only %d of the %d well-formed UPDATEs preceding the header under test reached the handler", len(upds), len(wantUpd))
					return
				}
				for i := range wantUpd {
					if !bytes.Equal(upds[i], wantUpd[i]) {
						fail("prefix-corrupted", "UPDATE %d preceding the header under test delivered as %x, sent %x", i, clip(upds[i]), clip(wantUpd[i]))
						return
					}
				}
				for _, m := range after {
					if m.Type != wire.TypeNotification {
						continue
					}
					if n, _ := wire.ParseNotif(m.Body); n.Code == 1 && (n.Sub == 1 || n.Sub == 3) {
						fail("notification-for-absent-fault", "every marker sent was sixteen 0xFF octets and every type known (header under test: type %d, length %d in %s), corebgp answered %v: the stream was not delimited by the length fields", c.Type, c.Len, c.State, n)
						return
					}
				}
				return
			}
			if !anyFault {
				// valid UPDATE header in Established: delimited by the length field alone
				wantUpd = append(wantUpd, body, trailer)
				if len(upds) != len(wantUpd) {
					fail("framing", "valid UPDATE of length %d: handler saw %d UPDATEs, want %d", c.Len, len(upds), len(wantUpd))
					return
				}
				for i := range upds {
					if !bytes.Equal(upds[i], wantUpd[i]) {
						fail("framing", "UPDATE %d delivered as %x..., sent %x... (header length field %d)", i, clip(upds[i]), clip(wantUpd[i]), c.Len)
						return
					}
				}
				if len(after) != 0 || st.LocalClosed {
					fail("valid-header-rejected", "valid UPDATE header (length %d) caused %d messages / close=%v", c.Len, len(after), st.LocalClosed)
				}
				return
			}
			// the prefix took effect
			if len(upds) < len(wantUpd) {
				fail("prefix-not-processed", "only %d of the %d well-formed UPDATEs preceding the faulty header reached the handler", len(upds), len(wantUpd))
				return
			}
			for i := range wantUpd {
				if !bytes.Equal(upds[i], wantUpd[i]) {
					fail("prefix-corrupted", "UPDATE %d preceding the fault delivered as %x, sent %x", i, clip(upds[i]), clip(wantUpd[i]))
					return
				}
			}
			if len(upds) > len(wantUpd) {
				fail("interpreted-after-fault", "%d UPDATEs reached the handler after the faulty header (first %x)", len(upds)-len(wantUpd), clip(upds[len(wantUpd)]))
				return
			}
			if len(after) != 1 || after[0].Type != wire.TypeNotification {
				fail("no-single-notification", "faulty header (marker=%v length=%v type=%v): corebgp sent %d messages after the prefix (first type %v)", fm, fl, ft, len(after), firstType(after))
				return
			}
			n, _ := wire.ParseNotif(after[0].Body)
			ok := false
			if fm && n.Code == 1 && n.Sub == 1 {
				ok = true
			}
			if fl && n.Code == 1 && n.Sub == 2 {
				ok = true
			}
			if ft && n.Code == 1 && n.Sub == 3 {
				if bytes.Equal(n.Data, []byte{c.Type}) {
					ok = true
				} else {
					fail("bad-type-data", "Bad Message Type for type octet %d carries data %x", c.Type, n.Data)
					return
				}
			}
			if !ok {
				fail("wrong-notification", "header faults marker=%v length=%v(%d) type=%v(%d) answered with %v", fm, fl, c.Len, ft, c.Type, n)
				return
			}
			if !st.LocalClosed {
				fail("not-closed", "connection left open after %v", n)
			}
		})
		if serr != nil {
			fail("setup", "%v", serr)
		}
		if b := o.Bad(); b != "" {
			fail("wedge", "%s", b)
		}
		v.Dev = dev
		return v
	}
}

func goodMarker() []byte { m := wire.GoodMarker(); return m[:] }

func c08Base(state string, out bool) c08Case {
	c := c08Case{State: state, Out: out, Marker: goodMarker(), Len: 19 + 7, Type: wire.TypeUpdate, BodyLen: 7}
	if state == stEstablished {
		c.Prefix = []int{5, -1, 0}
	}
	return c
}

func genC08(rt *rapid.T) c08Case {
	c := c08Base(pick(rt, "state", allStates...), rapid.Bool().Draw(rt, "out"))
	c.Shared = rapid.Bool().Draw(rt, "shared")
	c.Hold0 = rapid.IntRange(0, 3).Draw(rt, "hold0") == 0
	if c.State == stEstablished {
		c.Prefix = nil
		for i, n := 0, rapid.IntRange(0, 5).Draw(rt, "nprefix"); i < n; i++ {
			c.Prefix = append(c.Prefix, pick(rt, "plen", -1, 0, 1, 19, 4077, rapid.IntRange(0, 300).Draw(rt, "plenr")))
		}
	}
	nfaults := pick(rt, "nfaults", 1, 1, 1, 1, 2, 3)
	fields := []string{"len", "type", "marker"}
	c.Field = ""
	for i := 0; i < nfaults; i++ {
		f := fields[(rapid.IntRange(0, 2).Draw(rt, "field")+i)%3]
		c.Field += f
		switch f {
		case "len":
			c.Len = pick[uint16](rt, "len", 0, 1, 18, 19, 20, 4095, 4096, 4097, 4098, 65535, 32768, uint16(rapid.IntRange(0, 65535).Draw(rt, "lenr")))
		case "type":
			c.Type = pick[uint8](rt, "type", 0, 5, 6, 255, 128, 1, 2, 3, 4, rapid.Byte().Draw(rt, "typer"))
		case "marker":
			m := goodMarker()
			for j, k := 0, pick(rt, "nm", 1, 1, 2, 16); j < k; j++ {
				m[rapid.IntRange(0, 15).Draw(rt, "mpos")] = pick[uint8](rt, "mval", 0x00, 0x7F, 0xFE, rapid.Byte().Draw(rt, "mvalr"))
			}
			c.Marker = m
		}
	}
	if c.Len >= 19 && c.Len <= 4096 {
		c.BodyLen = int(c.Len) - 19
	} else {
		c.BodyLen = pick(rt, "blen", 0, 1, 7, 100)
	}
	total := 19 + c.BodyLen + 30
	for _, n := range c.Prefix {
		if n < 0 {
			total += 19
		} else {
			total += 19 + n
		}
	}
	if c.Shared {
		total += 19 + 40
	}
	c.Cuts = genCuts(rt, total)
	if rapid.IntRange(0, 3).Draw(rt, "withprev") == 0 {
		for i, n := 0, rapid.IntRange(1, 2).Draw(rt, "nprev"); i < n; i++ {
			c.Prev = append(c.Prev, world.PrevSession{Hold: pick[uint16](rt, "prevhold", 0, 3, 90), End: pick(rt, "prevend", "fin", "cease", "cease+junk", "handler-cease", "handler-cease"), In: rapid.IntRange(0, 2).Draw(rt, "previn") == 0})
		}
	}
	return c
}

// ---- NOTIFICATIONs corebgp sends, plugin-constructed

type c08Notif struct {
	Out     bool            `json:"out"`
	FromUpd bool            `json:"from_upd"` // returned by the update handler (else by OnOpenMessage)
	N       world.NotifSpec `json:"n"`
}

func c08NotifProp(t *testing.T, r *hx.Run) func(c c08Notif) hx.Verdict {
	return func(c c08Notif) hx.Verdict {
		r.SetCurrent("plugin_notifications", c)
		v := hx.Verdict{Class: fmt.Sprintf("fromupd=%v/len%s", c.FromUpd, lenClass(len(c.N.Data)))}
		if len(c.N.Data) == 1 || len(c.N.Data) >= 4075 || len(c.N.Data) == 0 {
			v.NT = fmt.Sprintf("%v/%v/%d/%d/%s", c.Out, c.FromUpd, c.N.Code, c.N.Sub, h64(c.N.Data))
		}
		p := basePeer(c.Out)
		if c.FromUpd {
			p.Plugin.HandlerNotifOn = 1
			p.Plugin.HandlerNotif = &c.N
		} else {
			p.Plugin.OpenNotif = &c.N
		}
		var dev *hx.Dev
		fail := func(key, f string, a ...any) {
			if dev == nil {
				dev = hx.Devf(key, f, a...)
			}
		}
		o, serr := world.Single(t, "10.0.0.1", p, c.Out, nil, func(w *world.World, conn *memnet.Conn) {
			conn.RemoteSend(world.RemoteOpen(p, conn, 90, 0x0a000002).Frame(), nil)
			w.Settle()
			skip := 1
			if c.FromUpd {
				conn.RemoteSend(wire.Keepalive(), nil)
				w.Settle()
				conn.RemoteSend(wire.Frame(wire.TypeUpdate, []byte{0, 0, 0, 0}), nil)
				w.Settle()
				skip = 2
			}
			msgs, perr := world.Parsed(conn)
			if perr != nil {
				fail("malformed-output", "corebgp's byte stream is not whole messages: %v", perr)
				return
			}
			if len(msgs) != skip+1 || msgs[skip].Type != wire.TypeNotification {
				fail("notification-missing", "expected the plugin's NOTIFICATION as message %d, corebgp sent %d messages", skip, len(msgs))
				return
			}
			n, _ := wire.ParseNotif(msgs[skip].Body)
			if n.Code != c.N.Code || n.Sub != c.N.Sub || !bytes.Equal(n.Data, c.N.Data) {
				key := "notification-not-verbatim"
				if len(c.N.Data) == 1 && len(n.Data) == 0 {
					key = "notif-1-byte-data-dropped"
				}
				fail(key, "plugin constructed (%d,%d,%d data bytes %x), the wire shows (%d,%d,%d data bytes %x)", c.N.Code, c.N.Sub, len(c.N.Data), clip(c.N.Data), n.Code, n.Sub, len(n.Data), clip(n.Data))
			}
			if !conn.Snapshot().LocalClosed {
				fail("not-closed", "connection left open after the plugin's NOTIFICATION")
			}
		})
		if serr != nil {
			fail("setup", "%v", serr)
		}
		if b := o.Bad(); b != "" {
			fail("wedge", "%s", b)
		}
		v.Dev = dev
		return v
	}
}

func TestC08(t *testing.T) {
	r := hx.Start(t, "C08")
	defer r.Finish(t)

	// (a) length sweep x type 1..4, per state and direction
	var lens []int
	if r.Quick() {
		for l := 0; l <= 40; l++ {
			lens = append(lens, l)
		}
		for l := 4090; l <= 4110; l++ {
			lens = append(lens, l)
		}
		lens = append(lens, 255, 256, 1000, 8192, 32767, 32768, 65534, 65535)
	} else {
		for l := 0; l <= 65535; l++ {
			lens = append(lens, l)
		}
	}
	hx.Enum(r, t, "length_sweep", int64(len(lens)*len(allStates)*2), iter.Seq[c08Case](func(yield func(c08Case) bool) {
		for _, l := range lens {
			for si, st := range allStates {
				for _, out := range []bool{false, true} {
					c := c08Base(st, out)
					c.Field = "len"
					c.Len = uint16(l)
					c.Type = uint8(1 + (l+si)%4)
					if l >= 19 && l <= 4096 {
						c.Type = wire.TypeUpdate
						c.BodyLen = l - 19
					}
					c.Shared = l%2 == 0
					if l%3 == 0 {
						c.Cuts = []int{1, 16, 17, 18, 19, 20}
					}
					if !yield(c) {
						return
					}
				}
			}
		}
	}), c08Prop(t, r, "length_sweep"))

	// (b) every type octet, per state and direction
	hx.Enum(r, t, "type_sweep", 256*3*2, iter.Seq[c08Case](func(yield func(c08Case) bool) {
		for ty := 0; ty < 256; ty++ {
			for _, st := range allStates {
				for _, out := range []bool{false, true} {
					c := c08Base(st, out)
					c.Field = "type"
					c.Type = uint8(ty)
					c.Shared = ty%2 == 1
					if !yield(c) {
						return
					}
				}
			}
		}
	}), c08Prop(t, r, "type_sweep"))

	// (c) marker corruption at each position x values, per state and direction
	hx.Enum(r, t, "marker_sweep", 16*4*3*2, iter.Seq[c08Case](func(yield func(c08Case) bool) {
		for pos := 0; pos < 16; pos++ {
			for vi, val := range []byte{0x00, 0x7F, 0xFE, 0xEF} {
				for _, st := range allStates {
					for _, out := range []bool{false, true} {
						c := c08Base(st, out)
						c.Field = "marker"
						m := goodMarker()
						m[pos] = val
						c.Marker = m
						c.Shared = (pos+vi)%2 == 0
						if pos%4 == 1 {
							c.Cuts = []int{pos, pos + 1}
						}
						if !yield(c) {
							return
						}
					}
				}
			}
		}
	}), c08Prop(t, r, "marker_sweep"))

	hx.Enum(r, t, "two_sessions_bad_types", 0, iter.Seq[c08Twin](func(yield func(c08Twin) bool) {
		for _, st := range []string{stOpenConfirm, stEstablished} {
			for _, ta := range []uint8{0, 5, 7, 255} {
				for _, tb := range []uint8{6, 9, 128} {
					for _, busy := range []bool{true, false} {
						if !yield(c08Twin{State: st, TypeA: ta, TypeB: tb, BusyA: busy}) {
							return
						}
					}
				}
			}
		}
	}), c08TwinProp(t, r, "two_sessions_bad_types"))
	hx.Rapid(r, t, "generated_headers", r.N(3000, 40000), genC08, c08Prop(t, r, "generated_headers"))
	hx.Rapid(r, t, "fault_after_history", r.N(800, 10000), genC08History, c08HistoryProp(t, r, "fault_after_history"))
	hx.Rapid(r, t, "fault_while_writing", r.N(300, 4000), genC08Busy, c08BusyProp(t, r, "fault_while_writing"))

	hx.Rapid(r, t, "plugin_notifications", r.N(2500, 30000), func(rt *rapid.T) c08Notif {
		n := pick(rt, "dlen", 0, 1, 1, 2, 3, 255, 256, 4074, 4075, rapid.IntRange(0, 4075).Draw(rt, "dlenr"))
		return c08Notif{Out: rapid.Bool().Draw(rt, "out"), FromUpd: rapid.Bool().Draw(rt, "fromupd"),
			N: world.NotifSpec{Code: rapid.Byte().Draw(rt, "code"), Sub: rapid.Byte().Draw(rt, "sub"), Data: genBytesN(rt, "data", n)}}
	}, c08NotifProp(t, r))
}

// ---- a fault after a history of traffic

// The NOTIFICATION must reach the wire whatever the session has been through:
// a timed history of local WriteUpdate calls and remote KEEPALIVEs (virtual
// time, several hold times long) precedes the faulty header.
type c08History struct {
	Out       bool   `json:"out"`
	Hold      int    `json:"hold"`       // local and remote hold time (s)
	WriteMs   int    `json:"write_ms"`   // gap between local WriteUpdate calls (0: none)
	WriteFrom int    `json:"write_from"` // the local writes begin that long after establishment
	RemoteMs  int    `json:"remote_ms"`  // gap between remote KEEPALIVEs
	RemoteUpd bool   `json:"remote_upd"` // the remote sends UPDATEs instead of KEEPALIVEs
	DurMs     int    `json:"dur_ms"`     // length of the history
	TailMs    int    `json:"tail_ms"`    // quiet time between the last write and the fault
	Fault     string `json:"fault"`      // marker len type
}

func c08HistoryProp(t *testing.T, r *hx.Run, sub string) func(c c08History) hx.Verdict {
	return func(c c08History) hx.Verdict {
		r.SetCurrent(sub, c)
		v := hx.Verdict{Class: fmt.Sprintf("hold=%d/writes=%v/longer-than-hold=%v/%s", c.Hold, c.WriteMs > 0, c.DurMs > c.Hold*1000, c.Fault)}
		if c.DurMs > c.Hold*1000 {
			v.NT = fmt.Sprintf("%+v", c)
		}
		p := basePeer(c.Out)
		p.Hold = c.Hold
		var dev *hx.Dev
		fail := func(key, f string, a ...any) {
			if dev == nil {
				dev = hx.Devf(key, f, a...)
			}
		}
		o, serr := world.Single(t, "10.0.0.1", p, c.Out, nil, func(w *world.World, conn *memnet.Conn) {
			for _, m := range handshakeBytes(p, conn, stEstablished, uint16(c.Hold)) {
				conn.RemoteSend(m, nil)
				w.Settle()
			}
			if w.Sessions(p.Remote) != 1 {
				fail("setup", "session did not establish")
				return
			}
			nextW, nextR := time.Duration(c.WriteFrom+c.WriteMs)*time.Millisecond, time.Duration(c.RemoteMs)*time.Millisecond
			start := w.Net.Since()
			writes, failed := 0, 0
			// local writes stop after DurMs; the remote keeps the session alive through the quiet tail
			total := time.Duration(c.DurMs+c.TailMs) * time.Millisecond
			for {
				now := w.Net.Since() - start
				if now >= total {
					break
				}
				if now >= time.Duration(c.DurMs)*time.Millisecond {
					c.WriteMs = 0
				}
				step := total - now
				if c.WriteMs > 0 && nextW-now < step {
					step = nextW - now
				}
				if nextR-now < step {
					step = nextR - now
				}
				if step > 0 {
					w.Advance(step)
				}
				now = w.Net.Since() - start
				if c.WriteMs > 0 && now >= nextW {
					if _, err := w.WriteUpdate(p.Remote, 0, 1, taggedUpdate(uint32(0xB0000000+writes), 12)); err != nil {
						failed++
					}
					writes++
					nextW += time.Duration(c.WriteMs) * time.Millisecond
				}
				if now >= nextR {
					if c.RemoteUpd {
						conn.RemoteSend(wire.Frame(wire.TypeUpdate, []byte{0, 0, 0, 0}), nil)
					} else {
						conn.RemoteSend(wire.Keepalive(), nil)
					}
					nextR += time.Duration(c.RemoteMs) * time.Millisecond
				}
				w.Settle()
				if conn.Snapshot().LocalClosed {
					msgs, _ := world.Parsed(conn)
					fail("session-ended-during-history", "the session ended %v into a history without faults (last message from corebgp: type %v; %d of %d WriteUpdate calls failed)", now, firstType(msgs[max(len(msgs)-1, 0):]), failed, writes)
					return
				}
			}
			before, _ := world.Parsed(conn)
			hdr := wire.Keepalive()
			want := wire.Notif{Code: 1}
			switch c.Fault {
			case "marker":
				hdr[7] = 0
				want.Sub = 1
			case "len":
				hdr[16], hdr[17] = 0, 18
				want.Sub = 2
			default:
				hdr[18] = 9
				want.Sub, want.Data = 3, []byte{9}
			}
			conn.RemoteSend(hdr, nil)
			w.Settle()
			msgs, perr := world.Parsed(conn)
			if perr != nil {
				fail("malformed-output", "%v", perr)
				return
			}
			after := msgs[len(before):]
			st := conn.Snapshot()
			if len(after) != 1 || after[0].Type != wire.TypeNotification {
				fail("no-single-notification", "after %v of traffic (%d local writes, %d failed) a %s fault: corebgp put %d messages on the wire (first type %v), closed=%v; want NOTIFICATION %v", time.Duration(c.DurMs)*time.Millisecond, writes, failed, c.Fault, len(after), firstType(after), st.LocalClosed, want)
				return
			}
			n, _ := wire.ParseNotif(after[0].Body)
			// data is stated only for the type fault (the offending type octet)
			if n.Code != want.Code || n.Sub != want.Sub || (c.Fault == "type" && !bytes.Equal(n.Data, want.Data)) {
				fail("wrong-notification", "%s fault answered with %v, want %v", c.Fault, n, want)
				return
			}
			if !st.LocalClosed {
				fail("not-closed", "connection still open after the NOTIFICATION")
			}
		})
		if serr != nil {
			fail("setup", "%v", serr)
		}
		if b := o.Bad(); b != "" {
			fail("wedge", "%s", b)
		}
		v.Dev = dev
		return v
	}
}

func genC08History(rt *rapid.T) c08History {
	c := c08History{Out: rapid.Bool().Draw(rt, "out"), Hold: pick(rt, "hold", 3, 6, 9, 30), Fault: pick(rt, "fault", "marker", "len", "type"),
		RemoteUpd: rapid.Bool().Draw(rt, "rupd")}
	h := c.Hold * 1000
	c.RemoteMs = pick(rt, "rgap", h/3, h/2, h*9/10)
	c.WriteMs = pick(rt, "wgap", 0, h/30+1, h/6, h/3-1, h/3+1, h/2)
	c.WriteFrom = pick(rt, "wfrom", 0, h/3+1, h/2, h)
	c.DurMs = pick(rt, "dur", h/2, h+h/10, 2*h+h/7, 5*h, rapid.IntRange(5, 50).Draw(rt, "durtenths")*h/10)
	c.TailMs = pick(rt, "tail", 0, 1, h/3-1, h/3+1, h*2/3)
	return c
}

// ---- faults on two sessions at the same time

// Each NOTIFICATION names the fault of its own connection: two peers receive headers
// with different unknown type octets in the same burst, one of them behind a message
// whose plugin callback keeps its FSM goroutine busy, so that its reader has the
// error ready long before it is looked at.
type c08Twin struct {
	State string `json:"state"` // of both sessions: openconfirm (reached by the burst itself) or established
	TypeA uint8  `json:"type_a"`
	TypeB uint8  `json:"type_b"`
	BusyA bool   `json:"busy_a"`
}

func c08TwinProp(t *testing.T, r *hx.Run, sub string) func(c c08Twin) hx.Verdict {
	return func(c c08Twin) hx.Verdict {
		r.SetCurrent(sub, c)
		v := hx.Verdict{Class: fmt.Sprintf("%s/busy=%v", c.State, c.BusyA)}
		v.NT = fmt.Sprintf("%+v", c)
		pa := world.PeerSpec{Remote: "10.0.0.2", LocalAS: 64512, RemoteAS: 64513, Passive: true, Hold: 90}
		pb := world.PeerSpec{Remote: "10.0.0.3", LocalAS: 64512, RemoteAS: 64514, Passive: true, Hold: 90}
		if c.BusyA {
			pa.Plugin.SpinUs = map[string]int64{"open": 400, "upd": 400}
		}
		var dev *hx.Dev
		fail := func(key, f string, a ...any) {
			if dev == nil {
				dev = hx.Devf(key, f, a...)
			}
		}
		o := world.Run(t, func() {
			w, err := world.New("10.0.0.1", nil)
			if err != nil {
				fail("setup", "%v", err)
				return
			}
			defer w.Finish()
			for _, p := range []world.PeerSpec{pa, pb} {
				if err := w.AddPeer(p); err != nil {
					fail("setup", "%v", err)
					return
				}
			}
			w.Serve()
			w.Settle()
			ca, cb := w.Inbound(pa.Remote, "10.0.0.1"), w.Inbound(pb.Remote, "10.0.0.1")
			w.Settle()
			var leadA, leadB []byte
			for _, x := range []struct {
				p    world.PeerSpec
				c    *memnet.Conn
				lead *[]byte
			}{{pa, ca, &leadA}, {pb, cb, &leadB}} {
				hs := handshakeBytes(x.p, x.c, c.State, 90)
				if c.State == stOpenConfirm {
					// the OPEN travels with the faulty header
					*x.lead, hs = hs[len(hs)-1], hs[:len(hs)-1]
				} else {
					*x.lead = wire.Frame(wire.TypeUpdate, taggedUpdate(0xA7000000, 12))
				}
				for _, m := range hs {
					x.c.RemoteSend(m, nil)
					w.Settle()
				}
			}
			ga, _ := world.Parsed(ca)
			gb, _ := world.Parsed(cb)
			na, nb := len(ga), len(gb)
			var mk [16]byte
			copy(mk[:], goodMarker())
			ca.RemoteSend(append(append([]byte{}, leadA...), wire.RawHeader(mk, 19, c.TypeA)...), nil)
			cb.RemoteSend(append(append([]byte{}, leadB...), wire.RawHeader(mk, 19, c.TypeB)...), nil)
			w.Settle()
			for _, x := range []struct {
				name string
				c    *memnet.Conn
				n    int
				ty   uint8
			}{{"A", ca, na, c.TypeA}, {"B", cb, nb, c.TypeB}} {
				msgs, perr := world.Parsed(x.c)
				if perr != nil {
					fail("malformed-output", "session %s: %v", x.name, perr)
					return
				}
				after := msgs[x.n:]
				if len(after) == 0 || after[len(after)-1].Type != wire.TypeNotification {
					fail("no-single-notification", "session %s: header with unknown type %d: corebgp sent %d messages, the last is not a NOTIFICATION", x.name, x.ty, len(after))
					return
				}
				n, _ := wire.ParseNotif(after[len(after)-1].Body)
				if n.Code != 1 || n.Sub != 3 || !bytes.Equal(n.Data, []byte{x.ty}) {
					fail("bad-type-data", "session %s received type octet %d (session A: %d, session B: %d, same burst); its NOTIFICATION is %v", x.name, x.ty, c.TypeA, c.TypeB, n)
					return
				}
				if !x.c.Snapshot().LocalClosed {
					fail("not-closed", "session %s: connection still open after the NOTIFICATION", x.name)
					return
				}
			}
		})
		if b := o.Bad(); b != "" {
			fail("wedge", "%s", b)
		}
		v.Dev = dev
		return v
	}
}

// ---- a fault while local writers are busy

// "A NOTIFICATION that corebgp sends always reaches the wire with exactly the
// code, subcode and data bytes it was constructed with" - also while other
// goroutines write UPDATEs on the same connection. Writes are slow and
// serialised (memnet.SetWriteSpin), so a NOTIFICATION that is not handed to
// the connection in one piece is cut by an UPDATE.
type c08Busy struct {
	Out     bool   `json:"out"`
	Writers int    `json:"writers"`
	BodyLen int    `json:"body_len"`
	SpinUs  int64  `json:"spin_us"`
	Fault   string `json:"fault"` // type (NOTIFICATION with data), marker, len
	Type    uint8  `json:"type"`  // the bad type octet
	AfterUs int64  `json:"after_us"`
}

func c08BusyProp(t *testing.T, r *hx.Run, sub string) func(c c08Busy) hx.Verdict {
	return func(c c08Busy) hx.Verdict {
		r.SetCurrent(sub, c)
		v := hx.Verdict{Class: fmt.Sprintf("writers=%d/%s", c.Writers, c.Fault)}
		if c.Writers >= 1 && (c.Fault == "type" || c.Fault == "unexpected" || c.Fault == "handler") {
			v.NT = fmt.Sprintf("%+v", c)
		}
		p := basePeer(c.Out)
		var dev *hx.Dev
		fail := func(key, f string, a ...any) {
			if dev == nil {
				dev = hx.Devf(key, f, a...)
			}
		}
		o, serr := world.Single(t, "10.0.0.1", p, c.Out, nil, func(w *world.World, conn *memnet.Conn) {
			for _, m := range handshakeBytes(p, conn, stEstablished, 90) {
				conn.RemoteSend(m, nil)
				w.Settle()
			}
			uw := w.Writer(p.Remote, 0)
			if uw == nil {
				fail("setup", "session did not establish")
				return
			}
			before, _ := world.Parsed(conn)
			w.Net.SetWriteSpin(c.SpinUs)
			var wg sync.WaitGroup
			for g := 0; g < c.Writers; g++ {
				wg.Add(1)
				go func() {
					defer wg.Done()
					for k := 0; k < 400; k++ {
						if uw.WriteUpdate(tagBody(0, 0, int64(g), k, c.BodyLen)) != nil {
							return
						}
					}
				}()
			}
			memnet.Spin(c.AfterUs)
			hdr := wire.Keepalive()
			want := wire.Notif{Code: 1}
			switch c.Fault {
			case "handler":
				// (C03) an UPDATE whose handler returns a Notification: sent verbatim, in one piece
				data := detBytes(int(c.Type)%40, uint32(c.Type))
				hdr = wire.Frame(wire.TypeUpdate, world.MagicUpdate(3, c.Type, data))
				want = wire.Notif{Code: 3, Sub: c.Type, Data: data}
			case "unexpected":
				// (C09) a well-formed message that the state does not allow: an OPEN in Established
				hdr = world.RemoteOpen(p, conn, 90, 0x0a000002).Frame()
				want = wire.Notif{Code: 5, Sub: 3, Data: []byte{wire.TypeOpen}}
			case "marker":
				hdr[9] = 0
				want.Sub = 1
			case "len":
				hdr[16], hdr[17] = 0xff, 0xff
				want.Sub = 2
			default:
				hdr[18] = c.Type
				want.Sub, want.Data = 3, []byte{c.Type}
			}
			conn.RemoteSend(hdr, nil)
			wg.Wait()
			w.Net.SetWriteSpin(0)
			w.Settle()
			msgs, perr := world.Parsed(conn)
			if perr != nil {
				fail("malformed-output", "with %d goroutines writing UPDATEs while the %s fault is answered: %v", c.Writers, c.Fault, perr)
				return
			}
			var notifs []wire.Notif
			for _, m := range msgs[len(before):] {
				switch m.Type {
				case wire.TypeNotification:
					n, _ := wire.ParseNotif(m.Body)
					notifs = append(notifs, n)
				case wire.TypeUpdate:
					if len(m.Body) != max(c.BodyLen, 16) || m.Body[0] != 0x5A {
						fail("foreign-update", "an UPDATE of %d bytes that no writer wrote is on the wire", len(m.Body))
						return
					}
				}
			}
			if len(notifs) != 1 {
				fail("no-single-notification", "%s fault while %d goroutines write: %d NOTIFICATIONs on the wire, want %v", c.Fault, c.Writers, len(notifs), want)
				return
			}
			n := notifs[0]
			if n.Code != want.Code || n.Sub != want.Sub || ((c.Fault == "type" || c.Fault == "unexpected" || c.Fault == "handler") && !bytes.Equal(n.Data, want.Data)) {
				fail("wrong-notification", "%s fault while %d goroutines write: answered with %v, want %v", c.Fault, c.Writers, n, want)
				return
			}
			if !conn.Snapshot().LocalClosed {
				fail("not-closed", "connection still open after the NOTIFICATION")
			}
		})
		if serr != nil {
			fail("setup", "%v", serr)
		}
		if b := o.Bad(); b != "" {
			fail("wedge", "%s", b)
		}
		v.Dev = dev
		return v
	}
}

func genC08Busy(rt *rapid.T) c08Busy {
	return c08Busy{Out: rapid.Bool().Draw(rt, "out"), Writers: rapid.IntRange(1, 4).Draw(rt, "writers"), BodyLen: pick(rt, "len", 16, 40, 1000),
		SpinUs: pick[int64](rt, "spin", 2, 10, 40), Fault: pick(rt, "fault", "type", "type", "marker", "len"),
		Type: pick[uint8](rt, "type", 0, 5, 9, 255), AfterUs: pick[int64](rt, "after", 0, 20, 100, 400)}
}
