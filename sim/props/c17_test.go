package props

import (
	"bytes"
	"errors"
	"fmt"
	"sync/atomic"
	"testing"

	"github.com/jwhited/corebgp"
	"pgregory.net/rapid"

	"verif/sim/hx"
	"verif/sim/wire"
)

// C17 - UpdateDecoder reports errors with the RFC 7606 approach they require;
// UpdateNotificationFromErr picks by severity.

// error classes, weakest to strongest
const (
	clsNil = iota
	clsForeign
	clsOtherUE
	clsDiscard
	clsTaW
	clsNotif
)

var clsNames = []string{"nil", "foreign", "otherUE", "discard", "taw", "notif"}

// otherUE is an UpdateError that is none of corebgp's concrete types.
type otherUE struct {
	n  *corebgp.Notification
	id int
}

func (o *otherUE) Error() string                         { return fmt.Sprintf("otherUE#%d", o.id) }
func (o *otherUE) AsSessionReset() *corebgp.Notification { return o.n }

type foreignErr struct{ id int }

func (f *foreignErr) Error() string { return fmt.Sprintf("foreign#%d", f.id) }

// wrap1 / wrapN are custom wrappers with single / multiple Unwrap.
type wrap1 struct{ inner error }

func (w *wrap1) Error() string { return "wrap1(" + w.inner.Error() + ")" }
func (w *wrap1) Unwrap() error { return w.inner }

type wrapN struct{ inner []error }

func (w *wrapN) Error() string   { return fmt.Sprintf("wrapN(%d)", len(w.inner)) }
func (w *wrapN) Unwrap() []error { return w.inner }

// ueWrap is an UpdateError that also wraps another error.
type ueWrap struct {
	n     *corebgp.Notification
	inner error
}

func (u *ueWrap) Error() string                         { return "ueWrap(" + u.inner.Error() + ")" }
func (u *ueWrap) Unwrap() error                         { return u.inner }
func (u *ueWrap) AsSessionReset() *corebgp.Notification { return u.n }

// errSpec describes one error a callback returns.
type errSpec struct {
	Class int  `json:"class"`
	Wrap  int  `json:"wrap"`            // 0 none, 1 fmt %w, 2 Join(foreign, e), 3 wrap1, 4 wrapN[foreign, e], 5 Join(e, foreign), 6 ueWrap
	NoFB  bool `json:"no_fb,omitempty"` // taw/discard without fallback Notification
}

// buildErr constructs the error; leaf is the identifiable object.
func buildErr(s errSpec, id int) (ret error, leaf error) {
	fb := &corebgp.Notification{Code: 3, Subcode: uint8(100 + id%100), Data: []byte{byte(id)}}
	switch s.Class {
	case clsNil:
		return nil, nil
	case clsForeign:
		leaf = &foreignErr{id}
	case clsOtherUE:
		leaf = &otherUE{n: fb, id: id}
	case clsDiscard:
		d := &corebgp.AttrDiscardUpdateErr{Code: uint8(id), Notification: fb}
		if s.NoFB {
			d.Notification = nil
		}
		leaf = d
	case clsTaW:
		w := &corebgp.TreatAsWithdrawUpdateErr{Code: uint8(id), Notification: fb}
		if s.NoFB {
			w.Notification = nil
		}
		leaf = w
	case clsNotif:
		leaf = fb
	}
	switch s.Wrap {
	case 1:
		ret = fmt.Errorf("wrapped: %w", leaf)
	case 2:
		ret = errors.Join(&foreignErr{-id}, leaf)
	case 3:
		ret = &wrap1{leaf}
	case 4:
		ret = &wrapN{[]error{&foreignErr{-id}, leaf}}
	case 5:
		ret = errors.Join(leaf, &foreignErr{-id})
	case 6:
		ret = &ueWrap{n: &corebgp.Notification{Code: 3, Subcode: 99}, inner: leaf}
	default:
		ret = leaf
	}
	return ret, leaf
}

func classOfNode(e error) int {
	switch e.(type) {
	case *corebgp.Notification:
		return clsNotif
	case *corebgp.TreatAsWithdrawUpdateErr:
		return clsTaW
	case *corebgp.AttrDiscardUpdateErr:
		return clsDiscard
	}
	if _, ok := e.(corebgp.UpdateError); ok {
		return clsOtherUE
	}
	return clsForeign
}

// walk visits the error tree in pre-order (node, then children in order).
// visit returns false to skip the node's children.
func walk(e error, visit func(error) bool) {
	if e == nil {
		return
	}
	if !visit(e) {
		return
	}
	switch x := e.(type) {
	case interface{ Unwrap() error }:
		walk(x.Unwrap(), visit)
	case interface{ Unwrap() []error }:
		for _, c := range x.Unwrap() {
			walk(c, visit)
		}
	}
}

func strongest(e error) int {
	s := clsNil
	walk(e, func(n error) bool {
		if c := classOfNode(n); c > s {
			s = c
		}
		return true
	})
	return s
}

// refPick is the reference for UpdateNotificationFromErr: highest severity,
// earliest in pre-order among equals; the element's session-reset
// notification; generic (3,0) when the tree holds no UpdateError.
func refPick(e error) (want *corebgp.Notification, exact bool, cls int) {
	if e == nil {
		return nil, true, clsNil
	}
	var first [clsNotif + 1]error
	walk(e, func(n error) bool {
		c := classOfNode(n)
		if first[c] == nil {
			first[c] = n
		}
		return true
	})
	generic := &corebgp.Notification{Code: 3}
	switch {
	case first[clsNotif] != nil:
		return first[clsNotif].(*corebgp.Notification), true, clsNotif
	case first[clsTaW] != nil:
		t := first[clsTaW].(*corebgp.TreatAsWithdrawUpdateErr)
		if t.Notification != nil {
			return t.Notification, true, clsTaW
		}
		return generic, false, clsTaW
	case first[clsDiscard] != nil:
		d := first[clsDiscard].(*corebgp.AttrDiscardUpdateErr)
		if d.Notification != nil {
			return d.Notification, true, clsDiscard
		}
		return generic, false, clsDiscard
	case first[clsOtherUE] != nil:
		return first[clsOtherUE].(corebgp.UpdateError).AsSessionReset(), true, clsOtherUE
	}
	return generic, false, clsForeign
}

func checkPick(e error) *hx.Dev {
	got := corebgp.UpdateNotificationFromErr(e)
	want, exact, cls := refPick(e)
	if e == nil {
		if got != nil {
			return hx.Devf("pick-nil", "UpdateNotificationFromErr(nil) = %v", got)
		}
		return nil
	}
	if got == nil {
		return hx.Devf("pick-nil-for-error", "UpdateNotificationFromErr returned nil for a non-nil error (strongest class %s)", clsNames[cls])
	}
	if exact {
		if got != want {
			return hx.Devf("pick-wrong", "UpdateNotificationFromErr picked (%d,%d,%x), reference picks (%d,%d,%x) [class %s]", got.Code, got.Subcode, got.Data, want.Code, want.Subcode, want.Data, clsNames[cls])
		}
	} else if got.Code != want.Code || got.Subcode != want.Subcode || len(got.Data) != 0 {
		return hx.Devf("pick-wrong-generic", "UpdateNotificationFromErr returned (%d,%d,%x), want generic (3,0) [class %s]", got.Code, got.Subcode, got.Data, clsNames[cls])
	}
	return nil
}

type c17Case struct {
	B    hx.Hex    `json:"b"`
	Errs []errSpec `json:"errs,omitempty"` // i-th callback invocation returns Errs[i]
}

type c17Rec struct {
	plan     []errSpec
	calls    int
	returned []error // objects returned by callbacks, in order (nil entries omitted)
	stopAt   int     // invocation index after which no callback may run (-1 = none)
	late     bool    // a callback ran after the stop point
	sawKinds []string
}

func (r *c17Rec) next(kind string) error {
	i := r.calls
	r.calls++
	if r.stopAt >= 0 && i > r.stopAt {
		r.late = true
	}
	r.sawKinds = append(r.sawKinds, kind)
	if i >= len(r.plan) {
		return nil
	}
	e, _ := buildErr(r.plan[i], i+1)
	if e != nil {
		r.returned = append(r.returned, e)
		if strongest(e) == clsNotif && r.stopAt < 0 {
			r.stopAt = i
		}
	}
	return e
}

var c17Fresh atomic.Bool // see c16Fresh

var c17Decoder = newC17Decoder()

func newC17Decoder() *corebgp.UpdateDecoder[*c17Rec] {
	return corebgp.NewUpdateDecoder[*c17Rec](
		func(r *c17Rec, b []byte) error { return r.next("wr") },
		func(r *c17Rec, code uint8, flags corebgp.PathAttrFlags, b []byte) error { return r.next("attr") },
		func(r *c17Rec, b []byte) error { return r.next("nlri") },
	)
}

func c17Dec() *corebgp.UpdateDecoder[*c17Rec] {
	if c17Fresh.Load() {
		return newC17Decoder()
	}
	return c17Decoder
}

func c17Prop(c c17Case) hx.Verdict {
	b := []byte(c.B)
	ref := wire.PartitionUpdate(b)
	rec := &c17Rec{plan: c.Errs, stopAt: -1}
	res := c17Dec().Decode(rec, append([]byte(nil), b...))

	nerr := 0
	for _, e := range c.Errs[:min(len(c.Errs), rec.calls)] {
		if e.Class != clsNil {
			nerr++
		}
	}
	stopped := rec.stopAt >= 0
	consistent := ref.Abort == "" && !ref.Overrun && !ref.DupMP
	missing := ref.Abort == "" && !ref.DupMP && ref.AnnouncesRoutes() && !(ref.Seen[1] && ref.Seen[2])
	v := hx.Verdict{Class: fmt.Sprintf("%s/announces=%v/missing=%v/cberrs=%d", c16Class(ref), ref.Abort == "" && ref.AnnouncesRoutes(), missing, min(nerr, 2))}
	if (ref.Abort == "" && ref.AnnouncesRoutes()) || nerr > 0 {
		v.NT = h64(b) + fmt.Sprint(c.Errs)
	}
	fail := func(key, f string, a ...any) hx.Verdict {
		v.Dev = hx.Devf(key, f+fmt.Sprintf(" (body %x, errs %v)", clip(b), c.Errs), a...)
		return v
	}

	if rec.late {
		return fail("callback-after-notification", "a callback ran after an earlier callback returned a *Notification-class error (calls: %v)", rec.sawKinds)
	}
	wantNil := consistent && !missing && len(rec.returned) == 0
	if wantNil != (res == nil) {
		if res == nil {
			key := "nil-for-bad-update"
			if missing && consistent && len(rec.returned) == 0 && ref.NAttrs == 0 {
				key = "nil-for-nlri-without-attributes"
			}
			return fail(key, "Decode returned nil, but: consistent=%v missing-mandatory=%v callback-errors=%d", consistent, missing, len(rec.returned))
		}
		return fail("error-for-good-update", "Decode returned %v for a consistent UPDATE whose callbacks returned nil", res)
	}
	if d := checkPick(res); d != nil {
		v.Dev = d
		return v
	}
	if res == nil {
		return v
	}
	// every callback error is in the tree (identity); collect decoder-made nodes
	found := make([]bool, len(rec.returned))
	var made []error
	walk(res, func(n error) bool {
		for i, e := range rec.returned {
			if n == e {
				found[i] = true
				return false
			}
		}
		switch n.(type) {
		case interface{ Unwrap() []error }:
			// a join node made by the decoder: look inside
		default:
			made = append(made, n)
		}
		return true
	})
	for i, ok := range found {
		if !ok {
			return fail("callback-error-lost", "error %v returned by a callback is not in the result tree", rec.returned[i])
		}
	}
	madeMax := clsNil
	var madeTaW []*corebgp.TreatAsWithdrawUpdateErr
	for _, m := range made {
		// plain (non-UpdateError) nodes the decoder adds, e.g. context
		// wrappers, carry no RFC 7606 class
		if c := classOfNode(m); c > madeMax && c != clsForeign {
			madeMax = c
		}
		if t, ok := m.(*corebgp.TreatAsWithdrawUpdateErr); ok {
			madeTaW = append(madeTaW, t)
		}
	}
	if stopped {
		if strongest(res) != clsNotif {
			return fail("notification-lost", "a callback returned a *Notification-class error but the result's strongest class is %s", clsNames[strongest(res)])
		}
		return v
	}
	want := clsNil
	switch {
	case ref.Abort != "" || ref.DupMP:
		want = clsNotif
	case ref.Ambiguous:
		want = -1 // either reading: notif or taw
	case ref.Overrun || missing:
		want = clsTaW
	}
	switch {
	case want == -1:
		if madeMax != clsNotif && madeMax != clsTaW {
			return fail("wrong-class", "repeated MP attribute that overruns: decoder's own strongest error is %s", clsNames[madeMax])
		}
	case madeMax != want:
		return fail("wrong-class", "decoder's own strongest error has class %s, RFC 7606 prescribes %s (abort=%q dupMP=%v overrun=%v missing=%v)", clsNames[madeMax], clsNames[want], ref.Abort, ref.DupMP, ref.Overrun, missing)
	}
	if missing && !ref.Ambiguous {
		ok := false
		for _, t := range madeTaW {
			n := t.Notification
			if n != nil && n.Code == 3 && n.Subcode == 3 && len(n.Data) == 1 &&
				((n.Data[0] == 1 && !ref.Seen[1]) || (n.Data[0] == 2 && !ref.Seen[2])) {
				ok = true
			}
		}
		if !ok {
			return fail("missing-attr-fallback", "mandatory attribute missing but no treat-as-withdraw error carries (3,3,data=missing type)")
		}
	}
	return v
}

func genErrSpec(rt *rapid.T) errSpec {
	return errSpec{
		Class: pick(rt, "cls", clsNil, clsNil, clsNil, clsForeign, clsOtherUE, clsDiscard, clsTaW, clsNotif),
		Wrap:  pick(rt, "wrap", 0, 0, 1, 2, 3, 4, 5, 6),
		NoFB:  rapid.IntRange(0, 5).Draw(rt, "nofb") == 0,
	}
}

// ---- random error trees for UpdateNotificationFromErr

type treeSpec struct {
	Kind  int        `json:"kind"` // 0 leaf, 1 fmt %w, 2 errors.Join, 3 wrap1, 4 wrapN, 5 ueWrap
	Leaf  errSpec    `json:"leaf,omitempty"`
	Kids  []treeSpec `json:"kids,omitempty"`
	Depth int        `json:"-"`
}

func genTree(rt *rapid.T, depth int) treeSpec {
	k := 0
	if depth < 5 {
		k = pick(rt, "kind", 0, 0, 1, 2, 2, 3, 4, 5)
	}
	t := treeSpec{Kind: k}
	switch k {
	case 0:
		t.Leaf = errSpec{Class: pick(rt, "lcls", clsForeign, clsForeign, clsOtherUE, clsDiscard, clsTaW, clsNotif), NoFB: rapid.IntRange(0, 4).Draw(rt, "nofb") == 0}
	case 1, 3, 5:
		t.Kids = []treeSpec{genTree(rt, depth+1)}
	default:
		n := rapid.IntRange(1, 4).Draw(rt, "fan")
		for i := 0; i < n; i++ {
			t.Kids = append(t.Kids, genTree(rt, depth+1))
		}
	}
	return t
}

func buildTree(t treeSpec, ctr *int) error {
	switch t.Kind {
	case 0:
		*ctr++
		_, leaf := buildErr(t.Leaf, *ctr)
		return leaf
	case 1:
		return fmt.Errorf("w: %w", buildTree(t.Kids[0], ctr))
	case 3:
		return &wrap1{buildTree(t.Kids[0], ctr)}
	case 5:
		*ctr++
		return &ueWrap{n: &corebgp.Notification{Code: 3, Subcode: uint8(*ctr)}, inner: buildTree(t.Kids[0], ctr)}
	}
	var ks []error
	for _, k := range t.Kids {
		ks = append(ks, buildTree(k, ctr))
	}
	if t.Kind == 2 {
		return errors.Join(ks...)
	}
	return &wrapN{ks}
}

func c17TreeProp(t treeSpec) hx.Verdict {
	ctr := 0
	e := buildTree(t, &ctr)
	classes := map[int]bool{}
	walk(e, func(n error) bool { classes[classOfNode(n)] = true; return true })
	_, _, cls := refPick(e)
	v := hx.Verdict{Class: "strongest=" + clsNames[cls]}
	if len(classes) >= 2 {
		v.NT = fmt.Sprintf("%+v", t)
	}
	v.Dev = checkPick(e)
	if v.Dev != nil {
		v.Dev.Msg += fmt.Sprintf(" (tree %+v)", t)
	}
	return v
}

func TestC17(t *testing.T) {
	r := hx.Start(t, "C17")
	defer r.Finish(t)

	if d := checkPick(nil); d != nil {
		t.Errorf("%s", d.Msg)
	}

	genOne := func(rt *rapid.T) c17Case {
		b, _ := genUpdateBody(rt)
		c := c17Case{B: b}
		if rapid.IntRange(0, 2).Draw(rt, "witherrs") > 0 {
			n := rapid.IntRange(1, 8).Draw(rt, "nerrs")
			for i := 0; i < n; i++ {
				c.Errs = append(c.Errs, genErrSpec(rt))
			}
		}
		return c
	}
	hx.Rapid(r, t, "decode_classes", r.N(60000, 600000), genOne, c17Prop)

	c17Fresh.Store(true)
	hx.Rapid(r, t, "concurrent_decoders", r.N(400, 4000), genConc(genOne, 2, 6, 40), concProp(c17Prop))
	c17Fresh.Store(false)

	// every short string over the protocol alphabet as the attribute block of
	// a consistent body (three NLRI variants), callbacks returning nil
	maxLen := 5
	if !r.Quick() {
		maxLen = 6
	}
	hx.Enum(r, t, fmt.Sprintf("alphabet_attr_blocks_len<=%d", maxLen), 3*countStrings(len(c16Alphabet), maxLen), func(yield func(c17Case) bool) {
		for c := range attrBlockBodies(c16Alphabet, maxLen) {
			if !yield(c17Case{B: c.B}) {
				return
			}
		}
	}, c17Prop)

	hx.Rapid(r, t, "notif_from_err_trees", r.N(60000, 600000), func(rt *rapid.T) treeSpec { return genTree(rt, 0) }, c17TreeProp)
}

func FuzzC17Classes(f *testing.F) {
	f.Add([]byte{0, 0, 0, 0, 8, 10}, uint64(0))
	f.Add([]byte{0, 0, 0, 4, 0x40, 1, 1, 0, 8, 10}, uint64(5))
	f.Add([]byte{0, 0, 0, 8, 0x90, 14, 0, 0, 0x90, 14, 0, 0}, uint64(0))
	f.Fuzz(func(t *testing.T, b []byte, plan uint64) {
		var errs []errSpec
		for i := 0; i < 6; i++ {
			errs = append(errs, errSpec{Class: int(plan>>(6*i)) & 7 % 6, Wrap: int(plan>>(6*i+3)) & 7 % 7})
		}
		v := c17Prop(c17Case{B: b, Errs: errs})
		if v.Dev != nil {
			t.Fatalf("key=%s %s", v.Dev.Key, v.Dev.Msg)
		}
	})
}

var _ = bytes.Equal
