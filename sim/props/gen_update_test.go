package props

import (
	"encoding/binary"

	"pgregory.net/rapid"

	"verif/sim/wire"
)

// ---- UPDATE grammar (shared by C05, C16, C17)

func genPfx(rt *rapid.T, ipv6, addPath bool) wire.Pfx {
	max := 32
	if ipv6 {
		max = 128
	}
	bits := pick(rt, "bits", 0, 1, 7, 8, 9, 16, 24, max-1, max, rapid.IntRange(0, max).Draw(rt, "bitsr"))
	p := wire.Pfx{Bits: bits, Addr: genBytesN(rt, "addr", (bits+7)/8)}
	if rapid.IntRange(0, 3).Draw(rt, "special") == 0 {
		// addresses that address libraries treat specially: IPv4-mapped, all
		// zeros / ones, loopback, link-local, multicast
		var full []byte
		if ipv6 {
			full = [][]byte{
				{0, 0, 0, 0, 0, 0, 0, 0, 0, 0, 0xff, 0xff, 192, 0, 2, 1},
				{0, 0, 0, 0, 0, 0, 0, 0, 0, 0, 0xff, 0xff, 0, 0, 0, 0},
				{0, 0, 0, 0, 0, 0, 0, 0, 0, 0, 0xff, 0xff, 255, 255, 255, 255},
				make([]byte, 16),
				{0, 0, 0, 0, 0, 0, 0, 0, 0, 0, 0, 0, 0, 0, 0, 1},
				{0xff, 0xff, 0xff, 0xff, 0xff, 0xff, 0xff, 0xff, 0xff, 0xff, 0xff, 0xff, 0xff, 0xff, 0xff, 0xff},
				{0xfe, 0x80, 0, 0, 0, 0, 0, 0, 0, 0, 0, 0, 0, 0, 0, 1},
				{0xff, 0x02, 0, 0, 0, 0, 0, 0, 0, 0, 0, 0, 0, 0, 0, 1},
				{0, 0x64, 0xff, 0x9b, 0, 0, 0, 0, 0, 0, 0, 0, 192, 0, 2, 1},
			}[rapid.IntRange(0, 8).Draw(rt, "special6")]
		} else {
			full = [][]byte{{0, 0, 0, 0}, {255, 255, 255, 255}, {127, 0, 0, 1}, {224, 0, 0, 1}, {169, 254, 0, 1}, {240, 0, 0, 0}}[rapid.IntRange(0, 5).Draw(rt, "special4")]
		}
		p.Addr = append([]byte{}, full[:(bits+7)/8]...)
	}
	if addPath {
		p.ID = pick[uint32](rt, "pid", 0, 1, 0xffffffff, rapid.Uint32().Draw(rt, "pidr"))
	}
	return p
}

func genPfxList(rt *rapid.T, ipv6, addPath bool, maxN int) []wire.Pfx {
	n := rapid.IntRange(0, maxN).Draw(rt, "npfx")
	ps := make([]wire.Pfx, 0, n)
	for i := 0; i < n; i++ {
		ps = append(ps, genPfx(rt, ipv6, addPath))
	}
	return ps
}

func be32(v uint32) []byte { return binary.BigEndian.AppendUint32(nil, v) }

func genASPathValue(rt *rapid.T) []byte {
	var v []byte
	for i, n := 0, rapid.IntRange(0, 4).Draw(rt, "nseg"); i < n; i++ {
		typ := pick[uint8](rt, "segtype", 2, 2, 1, 2, 1, 3, 4, 0, 5)
		cnt := pick(rt, "segcnt", 1, 2, 3, 1, 0, 255, rapid.IntRange(0, 12).Draw(rt, "segcntr"))
		v = append(v, typ, uint8(cnt))
		have := cnt
		if rapid.IntRange(0, 9).Draw(rt, "segshort") == 0 && cnt > 0 {
			have = rapid.IntRange(0, cnt-1).Draw(rt, "seghave")
		}
		if have > 40 {
			have = 40 // an overrun, deliberately
		}
		for j := 0; j < have; j++ {
			v = append(v, be32(pick[uint32](rt, "asn", 65001, 1, 23456, 4200000000, rapid.Uint32().Draw(rt, "asnr")))...)
		}
	}
	if rapid.IntRange(0, 11).Draw(rt, "oddtail") == 0 {
		v = append(v, genBytes(rt, "tail", 3)...)
	}
	return v
}

// genAttrValue draws a value for the attribute type: well-formed most of the
// time, otherwise a random value of a boundary-biased length.
func genAttrValue(rt *rapid.T, typ uint8) []byte {
	if rapid.IntRange(0, 3).Draw(rt, "badval") == 0 {
		n := pick(rt, "vlen", 0, 1, 2, 3, 4, 5, 7, 8, 9, 11, 12, 13, 24, 255, 256, rapid.IntRange(0, 300).Draw(rt, "vlenr"))
		return genBytesN(rt, "val", n)
	}
	switch typ {
	case 1:
		return []byte{pick[uint8](rt, "origin", 0, 1, 2, 3, 255)}
	case 2:
		return genASPathValue(rt)
	case 3, 9:
		return genBytesN(rt, "v4", 4)
	case 4, 5:
		return be32(rapid.Uint32().Draw(rt, "u32"))
	case 6:
		return []byte{}
	case 7:
		return genBytesN(rt, "aggr", 8)
	case 8, 10, 32:
		el := 4
		if typ == 32 {
			el = 12
		}
		if rapid.Bool().Draw(rt, "repeats") {
			// a list over a pool of three values: the same value several times, adjacent or
			// not (nothing in the attribute's rule forbids it, and nothing may be lost)
			pool := [][]byte{genBytesN(rt, "el0", el), genBytesN(rt, "el1", el), genBytesN(rt, "el2", el)}
			var v []byte
			for i, n := 0, rapid.IntRange(2, 8).Draw(rt, "nel"); i < n; i++ {
				v = append(v, pool[rapid.IntRange(0, 2).Draw(rt, "which")]...)
			}
			return v
		}
		return genBytesN(rt, "set", el*rapid.IntRange(1, 6).Draw(rt, "nset"))
	case 14:
		nhl := pick(rt, "nhl", 16, 32, 4, 0, 15, 17, 255, rapid.IntRange(0, 40).Draw(rt, "nhlr"))
		have := nhl
		if have > 40 {
			have = rapid.IntRange(0, 40).Draw(rt, "nhhave")
		}
		v := []byte{0, pick[uint8](rt, "afi", 2, 1, 25), pick[uint8](rt, "safi", 1, 2, 128), uint8(nhl)}
		v = append(v, genBytesN(rt, "nh", have)...)
		v = append(v, 0)
		ap := rapid.Bool().Draw(rt, "mpap")
		return append(v, wire.EncodePrefixes(genPfxList(rt, true, ap, 4), ap)...)
	case 15:
		v := []byte{0, pick[uint8](rt, "afi", 2, 1, 25), pick[uint8](rt, "safi", 1, 2, 128)}
		ap := rapid.Bool().Draw(rt, "mpap")
		return append(v, wire.EncodePrefixes(genPfxList(rt, true, ap, 4), ap)...)
	}
	return genBytes(rt, "val", 12)
}

func correctFlags(typ uint8) uint8 {
	for _, r := range wire.AttrRules {
		if r.Code == typ {
			var f uint8
			if r.Optional {
				f |= 0x80
			}
			if r.Transitive {
				f |= 0x40
			}
			return f
		}
	}
	if typ == 14 || typ == 15 {
		return 0x80
	}
	return 0xC0
}

type updAttr struct {
	Flags uint8
	Type  uint8
	Val   []byte
}

func (a updAttr) bytes() []byte {
	b := []byte{a.Flags, a.Type}
	if a.Flags&0x10 != 0 {
		b = binary.BigEndian.AppendUint16(b, uint16(len(a.Val)))
	} else {
		b = append(b, uint8(len(a.Val)))
	}
	return append(b, a.Val...)
}

func genUpdAttr(rt *rapid.T) updAttr {
	var typ uint8
	switch rapid.IntRange(0, 9).Draw(rt, "tkind") {
	case 0, 1:
		typ = pick[uint8](rt, "mptype", 14, 15)
	case 2:
		typ = rapid.Byte().Draw(rt, "typer")
	case 3, 4:
		typ = pick[uint8](rt, "mand", 1, 2)
	default:
		typ = pick[uint8](rt, "type", 1, 2, 3, 4, 5, 6, 7, 8, 9, 10, 32, 16, 0)
	}
	a := updAttr{Type: typ, Val: genAttrValue(rt, typ)}
	a.Flags = correctFlags(typ)
	switch rapid.IntRange(0, 5).Draw(rt, "fkind") {
	case 0:
		a.Flags = rapid.Byte().Draw(rt, "flagsr")
	case 1:
		a.Flags ^= pick[uint8](rt, "fflip", 0x80, 0x40, 0x20, 0xC0)
	}
	if len(a.Val) > 255 {
		a.Flags |= 0x10
	} else if rapid.IntRange(0, 3).Draw(rt, "ext") == 0 {
		a.Flags |= 0x10
	} else {
		a.Flags &^= 0x10
	}
	return a
}

// updShape summarises a generated UPDATE.
type updShape struct {
	NAttrs int
	Muts   int
}

// genUpdateBody draws an UPDATE body from the grammar, then mutates it.
func genUpdateBody(rt *rapid.T) ([]byte, updShape) {
	var sh updShape
	var wr []byte
	switch rapid.IntRange(0, 3).Draw(rt, "wrkind") {
	case 0:
	case 1:
		wr = genBytes(rt, "wrraw", 12)
	default:
		ap := rapid.IntRange(0, 3).Draw(rt, "wrap") == 0
		wr = wire.EncodePrefixes(genPfxList(rt, false, ap, 5), ap)
	}
	var attrs []updAttr
	n := pick(rt, "nattrs", 0, 1, 2, 3, 4, rapid.IntRange(0, 12).Draw(rt, "nattrsr"))
	for i := 0; i < n; i++ {
		attrs = append(attrs, genUpdAttr(rt))
	}
	// duplicates
	if len(attrs) > 0 && rapid.IntRange(0, 3).Draw(rt, "dup") == 0 {
		k := rapid.IntRange(0, len(attrs)-1).Draw(rt, "dupk")
		d := attrs[k]
		if rapid.Bool().Draw(rt, "dupnewval") {
			d.Val = genAttrValue(rt, d.Type)
			if len(d.Val) > 255 {
				d.Flags |= 0x10
			}
		}
		pos := rapid.IntRange(k+1, len(attrs)).Draw(rt, "duppos")
		attrs = append(attrs[:pos], append([]updAttr{d}, attrs[pos:]...)...)
	}
	sh.NAttrs = len(attrs)
	var ab []byte
	for _, a := range attrs {
		ab = append(ab, a.bytes()...)
	}
	var nlri []byte
	switch rapid.IntRange(0, 3).Draw(rt, "nlrikind") {
	case 0:
	case 1:
		nlri = genBytes(rt, "nlriraw", 12)
	default:
		ap := rapid.IntRange(0, 3).Draw(rt, "nlriap") == 0
		nlri = wire.EncodePrefixes(genPfxList(rt, false, ap, 5), ap)
	}
	wrl, pal := len(wr), len(ab)
	// structural mutations of the two length fields and of the attribute block
	nm := pick(rt, "nstruct", 0, 0, 0, 1, 1, 2)
	for i := 0; i < nm; i++ {
		sh.Muts++
		switch rapid.IntRange(0, 6).Draw(rt, "smut") {
		case 0:
			wrl += pick(rt, "dw", 1, -1, 2, 256, -256, 65535)
		case 1:
			pal += pick(rt, "dp", 1, -1, 2, 3, -2, -3, 256, -256, 65535)
		case 2: // truncate the attribute block inside the last attribute
			if len(ab) > 0 {
				cut := rapid.IntRange(1, min(len(ab), 6)).Draw(rt, "abcut")
				ab = ab[:len(ab)-cut]
				pal = len(ab)
			}
		case 3: // append a partial attribute header
			ab = append(ab, pick(rt, "partial", []byte{0x40}, []byte{0x40, 1}, []byte{0x50, 1, 0}, []byte{0x80, 14}, []byte{0x90, 14, 0}, []byte{0x80, 15, 9, 0})...)
			pal = len(ab)
		case 4: // raise the last byte-sized attribute length
			if len(attrs) > 0 {
				a := attrs[len(attrs)-1]
				if a.Flags&0x10 == 0 && len(ab) >= len(a.Val)+1 {
					ab[len(ab)-len(a.Val)-1] += pick[uint8](rt, "dl", 1, 2, 100)
				}
			}
		case 5: // truncate the whole message
			full := encodeUpdate(wrl, wr, pal, ab, nlri)
			if len(full) > 0 {
				full = full[:rapid.IntRange(0, len(full)-1).Draw(rt, "mcut")]
			}
			return full, sh
		case 6:
			full, k := mutateBytes(rt, encodeUpdate(wrl, wr, pal, ab, nlri))
			sh.Muts += k
			return full, sh
		}
	}
	return encodeUpdate(wrl, wr, pal, ab, nlri), sh
}

func encodeUpdate(wrl int, wr []byte, pal int, ab, nlri []byte) []byte {
	b := binary.BigEndian.AppendUint16(nil, uint16(wrl))
	b = append(b, wr...)
	b = binary.BigEndian.AppendUint16(b, uint16(pal))
	b = append(b, ab...)
	return append(b, nlri...)
}

// giantUpdate builds a buffer longer than 65535 bytes with the two length
// fields set to the given values.
func giantUpdate(total int, wrl, pal uint16) []byte {
	b := make([]byte, total)
	binary.BigEndian.PutUint16(b, wrl)
	if int(wrl)+4 <= total {
		binary.BigEndian.PutUint16(b[2+int(wrl):], pal)
	}
	return b
}
