package props

import (
	"encoding/binary"
	"fmt"
	"net/netip"
	"sync"
	"testing"
	"time"

	"pgregory.net/rapid"

	"verif/sim/hx"
	"verif/sim/memnet"
	"verif/sim/wire"
	"verif/sim/world"
)

// A Script is a plain value: a world configuration and a list of bursts. All
// actions of a burst are fired without settling in between (they are
// concurrent for corebgp); after each burst the world settles. An action whose
// target does not exist is a counted no-op, so every script is executable and
// stays executable when rapid shrinks it.

type act struct {
	Op    string `json:"op"`
	P     int    `json:"p,omitempty"`
	Dir   string `json:"dir,omitempty"`  // in | out: the peer's latest connection of that direction
	Msg   string `json:"msg,omitempty"`  // send: open keepalive update notif garbage magic
	Code  uint8  `json:"code,omitempty"` // notif / magic code
	Len   int    `json:"len,omitempty"`  // update body length
	Cuts  []int  `json:"cuts,omitempty"`
	Ns    int64  `json:"ns,omitempty"`     // advance
	G     int    `json:"g,omitempty"`      // write: goroutines
	N     int    `json:"n,omitempty"`      // write: calls per goroutine
	Back  int    `json:"back,omitempty"`   // write: 0 = latest session of the peer, 1 = the one before, ...
	Plan  string `json:"plan,omitempty"`   // plan: refuse accept hold stall
	GapNs int64  `json:"gap_ns,omitempty"` // write: virtual sleep between the calls of one goroutine
}

type script struct {
	RouterID string           `json:"router_id"`
	Peers    []world.PeerSpec `json:"peers"`
	Plans    []string         `json:"plans"` // initial dial plan per peer
	Delays   []int64          `json:"delays,omitempty"`
	Bursts   [][]act          `json:"bursts"`
	// Arms: targeted schedule-point delays, each armed right before its burst
	Arms []scriptArm `json:"arms,omitempty"`
}

type scriptArm struct {
	Burst int    `json:"burst"`
	Point string `json:"point"`
	Skip  int    `json:"skip"`
	D     int64  `json:"d"`
}

// apiCall records one blocking API call made by the script.
type apiCall struct {
	Name     string
	Peer     string
	Burst    int
	CallSeq  int64
	RetSeq   int64 // 0 = did not return within the bound
	Returned bool
	Took     time.Duration
	Err      error
}

// writeCall records one WriteUpdate call made by a script goroutine.
type writeCall struct {
	Peer    string
	Sess    int
	G       int64
	Idx     int
	Body    []byte
	CallSeq int64
	RetSeq  int64
	Err     bool
}

// trace is everything the oracles look at.
type trace struct {
	Events   []world.Ev
	Conns    []memnet.State
	ConnPeer map[int]string // conn id -> remote address
	Dials    []memnet.DialAttempt
	API      []apiCall
	Writes   []writeCall
	NoOps    int
	Outcome  world.Outcome
	ServeErr error
	ServeRet bool
	Dump     string
	// quiescent snapshots: for each burst index, the stage of every connection
	// at the last stable point before the burst
	Stages         []map[int]string
	RemoteOpenSent map[int]bool // conn id -> the remote sent an OPEN on it
	FinalAt        time.Duration
}

func tagBody(peer, sess int, g int64, idx, n int) []byte {
	if n < 16 {
		n = 16
	}
	b := make([]byte, n)
	b[0] = 0x5A
	b[1] = byte(peer)
	binary.BigEndian.PutUint16(b[2:], uint16(sess))
	binary.BigEndian.PutUint32(b[4:], uint32(g))
	binary.BigEndian.PutUint32(b[8:], uint32(idx))
	binary.BigEndian.PutUint32(b[12:], uint32(n))
	for i := 16; i < n; i++ {
		b[i] = byte(i*7) ^ b[i%16]
	}
	return b
}

// boundWriter is an UpdateMessageWriter captured at the time the script's
// write action was interpreted.
type boundWriter struct {
	w interface{ WriteUpdate([]byte) error }
}

func (b boundWriter) call(w *world.World, peer string, sessID int, g int64, body []byte) (int, error) {
	w.Rec.Add(world.Ev{K: "wu+", Peer: peer, N: sessID, G: g, Data: body})
	err := b.w.WriteUpdate(body)
	w.Rec.Add(world.Ev{K: "wu-", Peer: peer, N: sessID, G: g, Data: body, Err: err != nil})
	return sessID, err
}

func planOf(s string) memnet.DialPlan {
	switch s {
	case "accept":
		return memnet.DialPlan{Kind: memnet.Accept}
	case "hold":
		return memnet.DialPlan{Kind: memnet.Hold}
	case "stall":
		return memnet.DialPlan{Kind: memnet.Stall}
	case "accept-late":
		return memnet.DialPlan{Kind: memnet.Accept, SpinUs: 20}
	}
	return memnet.DialPlan{Kind: memnet.Refuse}
}

// connStage classifies a connection from the outside: what corebgp has sent
// on it so far.
func connStage(st memnet.State, remoteOpen, remoteKA bool) string {
	if st.LocalClosed {
		return "closed"
	}
	if !st.HandedOver {
		return "pending"
	}
	msgs, _ := wire.ParseStream(st.Bytes())
	switch {
	case len(msgs) == 0:
		return "connected"
	case len(msgs) == 1:
		return "opensent"
	case remoteOpen && remoteKA:
		return "established"
	default:
		return "openconfirm"
	}
}

// runScript executes the script in a fresh bubble.
func runScript(t *testing.T, s script) *trace {
	tr := &trace{ConnPeer: map[int]string{}, RemoteOpenSent: map[int]bool{}}
	var mu sync.Mutex
	tr.Outcome = world.Run(t, func() {
		delays := s.Delays
		if len(delays) == 0 && len(s.Arms) > 0 {
			delays = []int64{0} // switches the schedule-point hook on
		}
		w, err := world.New(s.RouterID, delays)
		if err != nil {
			tr.Dump = "setup: " + err.Error()
			return
		}
		remoteKA := map[int]bool{}
		for i, p := range s.Peers {
			if i < len(s.Plans) {
				w.Net.SetPlans(p.RemoteAddr(), planOf(s.Plans[i]))
			}
			if err := w.AddPeer(p); err != nil {
				tr.Dump = "setup AddPeer: " + err.Error()
				return
			}
		}
		w.Serve()
		w.Settle()
		present := map[int]bool{}
		for i := range s.Peers {
			present[i] = true
		}
		latest := func(pi int, dir string) *memnet.Conn {
			remote := s.Peers[pi].Remote
			var best *memnet.Conn
			for _, c := range w.Net.Conns() {
				st := c.Snapshot()
				if st.Remote.Addr().String() != remote {
					continue
				}
				if (dir == "in") == st.Inbound {
					best = c
				}
			}
			return best
		}
		closed := false
		var pendingAPI []*apiCall
		var pendingDone []chan struct{}
		var wg sync.WaitGroup
		stageMap := func() map[int]string {
			m := map[int]string{}
			for _, c := range w.Net.Conns() {
				st := c.Snapshot()
				m[st.ID] = connStage(st, tr.RemoteOpenSent[st.ID], remoteKA[st.ID])
			}
			return m
		}
		for bi, burst := range s.Bursts {
			for _, a := range s.Arms {
				if a.Burst == bi {
					w.Arm(a.Point, a.Skip, a.D)
				}
			}
			tr.Stages = append(tr.Stages, stageMap())
			touched := map[int]bool{}
			for ai, a := range burst {
				if a.P < 0 || a.P >= len(s.Peers) {
					tr.NoOps++
					continue
				}
				p := s.Peers[a.P]
				switch a.Op {
				case "connect":
					if closed {
						tr.NoOps++
						continue
					}
					w.Inbound(p.Remote, world.LocalFor(p))
				case "release":
					if len(w.Net.Release(p.RemoteAddr())) == 0 {
						tr.NoOps++
					}
				case "plan":
					w.Net.SetPlans(p.RemoteAddr(), planOf(a.Plan))
				case "send":
					c := latest(a.P, a.Dir)
					if c == nil {
						tr.NoOps++
						continue
					}
					var b []byte
					switch a.Msg {
					case "open":
						b = world.RemoteOpen(p, c, uint16(max(p.HoldSeconds(), 3)), 0x0a0000c8+uint32(a.P)).Frame()
						tr.RemoteOpenSent[c.ID] = true
					case "keepalive":
						b = wire.Keepalive()
						if tr.RemoteOpenSent[c.ID] {
							remoteKA[c.ID] = true
						}
					case "update":
						b = wire.Frame(wire.TypeUpdate, taggedUpdate(uint32(0x55000000+bi*256+a.P), a.Len))
					case "notif":
						b = wire.Notif{Code: a.Code, Sub: 1}.Frame()
					case "magic":
						b = wire.Frame(wire.TypeUpdate, world.MagicUpdate(a.Code, 1, nil))
					default:
						b = wire.Keepalive()
						b[7] = 0x42
					}
					if !c.RemoteSend(b, a.Cuts) {
						tr.NoOps++
					}
				case "rclose":
					if c := latest(a.P, a.Dir); c != nil {
						c.RemoteClose()
					} else {
						tr.NoOps++
					}
				case "rreset":
					if c := latest(a.P, a.Dir); c != nil {
						c.RemoteReset()
					} else {
						tr.NoOps++
					}
				case "advance":
					// handled after the burst
				case "write":
					n := w.Sessions(p.Remote)
					sess := n - 1 - a.Back
					if sess < 0 {
						tr.NoOps++
						continue
					}
					// bind the writer now: a later DeletePeer+AddPeer replaces the registration
					sessID := w.SessionID(p.Remote, sess)
					wr := boundWriter{w.Writer(p.Remote, sess)}
					if wr.w == nil || sessID < 0 {
						tr.NoOps++
						continue
					}
					for g := 0; g < max(a.G, 1); g++ {
						wg.Add(1)
						go func(g int64) {
							defer wg.Done()
							for i := 0; i < max(a.N, 1); i++ {
								if i > 0 && a.GapNs > 0 {
									time.Sleep(time.Duration(a.GapNs))
								}
								body := tagBody(a.P, sess, g+int64(10000*bi+100*ai), i, a.Len)
								wc := writeCall{Peer: p.Remote, Sess: sessID, G: g + int64(10000*bi+100*ai), Idx: i, Body: body}
								wc.CallSeq = w.Net.NextSeq()
								_, err := wr.call(w, p.Remote, sessID, wc.G, body)
								wc.RetSeq = w.Net.NextSeq()
								wc.Err = err != nil
								mu.Lock()
								tr.Writes = append(tr.Writes, wc)
								mu.Unlock()
							}
						}(int64(g))
					}
				case "del", "add", "close":
					if closed && a.Op != "close" {
						// registry calls after Close are fine but uninteresting here
					}
					// registry calls on one peer may race within a burst (DeletePeer
					// concurrent with AddPeer); the oracles treat overlapping calls
					// as unordered. Calls that cannot succeed are harmless.
					_ = touched
					ac := &apiCall{Name: a.Op, Peer: p.Remote, Burst: bi}
					done := make(chan struct{})
					ac.CallSeq = w.Net.NextSeq()
					start := w.Net.Since()
					if a.Op == "close" {
						closed = true
					}
					go func(a act) {
						var err error
						switch a.Op {
						case "del":
							err = w.Srv.DeletePeer(netip.MustParseAddr(p.Remote))
						case "add":
							err = w.AddPeer(p)
						case "close":
							w.Srv.Close()
						}
						mu.Lock()
						ac.Err = err
						ac.RetSeq = w.Net.NextSeq()
						ac.Returned = true
						ac.Took = w.Net.Since() - start
						mu.Unlock()
						close(done)
					}(a)
					pendingAPI = append(pendingAPI, ac)
					pendingDone = append(pendingDone, done)
				default:
					tr.NoOps++
				}
			}
			w.Settle()
			// blocking API calls get 10 virtual seconds
			for i, d := range pendingDone {
				tm := time.NewTimer(10 * time.Second)
				select {
				case <-d:
					tm.Stop()
				case <-tm.C:
				}
				mu.Lock()
				tr.API = append(tr.API, *pendingAPI[i])
				mu.Unlock()
			}
			pendingAPI, pendingDone = nil, nil
			for _, a := range burst {
				if a.Op == "advance" && a.Ns > 0 {
					time.Sleep(time.Duration(a.Ns))
				}
			}
			w.Settle()
		}
		tr.Stages = append(tr.Stages, stageMap())
		// writers must come back (they may be blocked only by a defect)
		wdone := make(chan struct{})
		go func() { wg.Wait(); close(wdone) }()
		tm := time.NewTimer(30 * time.Second)
		select {
		case <-wdone:
			tm.Stop()
		case <-tm.C:
			tr.Dump += "WriteUpdate callers still blocked after 30 virtual seconds\n"
		}
		// final shutdown
		fin := &apiCall{Name: "close(final)", Burst: len(s.Bursts)}
		fin.CallSeq = w.Net.NextSeq()
		fin.Returned, fin.Took = w.Call("Close", "", 30*time.Second, w.Srv.Close)
		fin.RetSeq = w.Net.NextSeq()
		w.Settle()
		tr.FinalAt = w.Net.Since()
		// observe for a while: nothing may happen any more
		w.Advance(10 * time.Minute)
		tr.API = append(tr.API, *fin)
		tr.ServeRet, tr.ServeErr = w.ServeReturned()
		tr.Events = w.Rec.Events()
		for _, c := range w.Net.Conns() {
			st := c.Snapshot()
			tr.Conns = append(tr.Conns, st)
			tr.ConnPeer[st.ID] = st.Remote.Addr().String()
		}
		tr.Dials = w.Net.Dials()
		tr.Dump += w.Dump()
		w.Finish()
	})
	return tr
}

// ---- generator

type scriptProfile struct {
	peers     int // max peers
	bursts    int // max bursts
	writes    int // weight of write actions
	api       int // weight of API stop actions
	faults    int // weight of remote faults
	sleeps    bool
	holdShort bool
}

func genPeerSpecs(rt *rapid.T, n int, prof scriptProfile) ([]world.PeerSpec, []string) {
	var ps []world.PeerSpec
	var plans []string
	for i := 0; i < n; i++ {
		p := world.PeerSpec{Remote: fmt.Sprintf("10.0.0.%d", 2+i), LocalAS: 64512, RemoteAS: uint32(64600 + i), Hold: 90,
			IdleHoldMs: pick(rt, "idle", 1000, 5000), ConnRetryMs: pick(rt, "retry", 2000, 5000)}
		if prof.holdShort {
			p.Hold = pick(rt, "hold", 3, 6, 9, 90, 0)
		}
		p.Passive = rapid.IntRange(0, 3).Draw(rt, "passive") == 0
		if prof.sleeps && rapid.IntRange(0, 4).Draw(rt, "sleeps") == 0 {
			p.Plugin.SpinUs = map[string]int64{pick(rt, "sleepcb", "caps", "open", "est", "upd", "close"): pick[int64](rt, "spinus", 5, 20, 100)}
		}
		if prof.writes > 0 {
			if rapid.IntRange(0, 2).Draw(rt, "wie") == 0 {
				p.Plugin.WriteInEst = []hx.Hex{tagBody(i, 9000, -1, 0, 20)}
			}
			if rapid.IntRange(0, 2).Draw(rt, "wiu") == 0 {
				p.Plugin.WriteInUpd = []hx.Hex{tagBody(i, 9001, -2, 0, 20)}
			}
			if rapid.IntRange(0, 3).Draw(rt, "wic") == 0 {
				p.Plugin.WriteInClose = []hx.Hex{tagBody(i, 9002, -3, 0, 20)}
			}
		}
		ps = append(ps, p)
		plans = append(plans, pick(rt, "plan", "refuse", "accept", "accept", "hold", "accept-late"))
	}
	return ps, plans
}

func genAct(rt *rapid.T, npeers int, prof scriptProfile) act {
	a := act{P: rapid.IntRange(0, npeers-1).Draw(rt, "p"), Dir: pick(rt, "dir", "in", "out")}
	weights := []struct {
		op string
		w  int
	}{
		{"connect", 6}, {"release", 3}, {"send-open", 10}, {"send-keepalive", 10}, {"send-update", 5},
		{"send-bad", prof.faults}, {"rclose", prof.faults}, {"rreset", prof.faults}, {"plan", 2},
		{"write", prof.writes}, {"del", prof.api}, {"add", prof.api}, {"close", prof.api / 3},
	}
	total := 0
	for _, w := range weights {
		total += w.w
	}
	k := rapid.IntRange(0, total-1).Draw(rt, "op")
	op := ""
	for _, w := range weights {
		if k < w.w {
			op = w.op
			break
		}
		k -= w.w
	}
	switch op {
	case "send-open":
		a.Op, a.Msg = "send", "open"
	case "send-keepalive":
		a.Op, a.Msg = "send", "keepalive"
	case "send-update":
		a.Op, a.Msg = "send", "update"
		a.Len = pick(rt, "ulen", 0, 4, 23, 4077, rapid.IntRange(0, 200).Draw(rt, "ulenr"))
	case "send-bad":
		a.Op = "send"
		a.Msg = pick(rt, "bad", "notif", "notif", "garbage", "magic")
		a.Code = pick[uint8](rt, "code", 6, 6, 2, 4, 5, 3)
	case "plan":
		a.Op = "plan"
		a.Plan = pick(rt, "plan", "refuse", "accept", "hold", "stall", "accept-late")
	case "write":
		a.Op = "write"
		a.G = rapid.IntRange(1, 4).Draw(rt, "g")
		a.N = rapid.IntRange(1, 6).Draw(rt, "n")
		a.Back = pick(rt, "back", 0, 0, 0, 1, 2)
		a.Len = pick(rt, "wlen", 16, 19, 255, 4077, rapid.IntRange(16, 300).Draw(rt, "wlenr"))
		a.GapNs = pick[int64](rt, "gap", 0, 0, 1000, 1000000, 999999999, 1000000000, 3000000000)
	default:
		a.Op = op
	}
	if a.Op == "send" && rapid.IntRange(0, 5).Draw(rt, "cut") == 0 {
		a.Cuts = []int{rapid.IntRange(1, 18).Draw(rt, "cutpos")}
	}
	return a
}

func genScript(rt *rapid.T, prof scriptProfile) script {
	n := rapid.IntRange(1, prof.peers).Draw(rt, "npeers")
	s := script{RouterID: pick(rt, "rid", "10.0.0.1", "10.0.0.250")}
	s.Peers, s.Plans = genPeerSpecs(rt, n, prof)
	if rapid.IntRange(0, 2).Draw(rt, "delays") == 0 {
		for i, k := 0, rapid.IntRange(1, 8).Draw(rt, "ndelays"); i < k; i++ {
			s.Delays = append(s.Delays, rapid.Int64Range(0, 3).Draw(rt, "delay"))
		}
	}
	nb := rapid.IntRange(3, prof.bursts).Draw(rt, "nbursts")
	var armAt []scriptArm
	for i := 0; i < nb; i++ {
		var b []act
		switch rapid.IntRange(0, 9).Draw(rt, "bkind") {
		case 0, 1:
			// time passes
			p := s.Peers[rapid.IntRange(0, n-1).Draw(rt, "ap")]
			b = []act{{Op: "advance", Ns: int64(pick(rt, "adv", time.Millisecond, p.IdleHold(), p.ConnRetry(), p.IdleHold()+p.ConnRetry(),
				time.Duration(p.HoldSeconds())*time.Second/3, time.Duration(p.HoldSeconds())*time.Second+time.Millisecond, 61*time.Second, 5*time.Minute))}}
		case 2, 3, 4, 5:
			// a scripted handshake step on one connection: OPEN then KEEPALIVE over two bursts
			pi := rapid.IntRange(0, n-1).Draw(rt, "hp")
			dir := pick(rt, "hdir", "in", "out")
			if dir == "in" {
				b = append(b, act{Op: "connect", P: pi})
			} else {
				b = append(b, act{Op: "release", P: pi})
			}
			s.Bursts = append(s.Bursts, b)
			s.Bursts = append(s.Bursts, []act{{Op: "send", P: pi, Dir: dir, Msg: "open"}})
			b = []act{{Op: "send", P: pi, Dir: dir, Msg: "keepalive"}}
			if rapid.Bool().Draw(rt, "endit") {
				// ... and the session ends again
				s.Bursts = append(s.Bursts, b)
				b = []act{{Op: pick(rt, "endop", "rclose", "rreset", "send", "send"), P: pi, Dir: dir, Msg: "notif", Code: pick[uint8](rt, "endcode", 6, 6, 4)}}
				if rapid.Bool().Draw(rt, "endconc") {
					b = append(b, genAct(rt, n, prof))
				}
			} else if prof.api > 0 && rapid.IntRange(0, 2).Draw(rt, "stopinka") == 0 {
				// the peer is removed (or the server closed) while the
				// KEEPALIVE that completes the handshake is being handled;
				// the state function about to be entered dawdles
				b = append(b, act{Op: pick(rt, "stopop", "del", "del", "close"), P: pi})
				if rapid.Bool().Draw(rt, "stopfirst") {
					b[0], b[1] = b[1], b[0]
				}
				armAt = append(armAt, scriptArm{Burst: len(s.Bursts), Point: "fsm.enter",
					Skip: rapid.IntRange(0, 1).Draw(rt, "stopskip"), D: pick[int64](rt, "stopd", 20, 80, 200)})
			}
		case 6:
			if prof.api == 0 {
				b = []act{genAct(rt, n, prof)}
				break
			}
			// DeletePeer racing AddPeer of the same peer while its session is
			// up and a new connection completes the handshake at once; the
			// peer's OnClose dawdles
			pi := rapid.IntRange(0, n-1).Draw(rt, "rp")
			if s.Peers[pi].Plugin.SpinUs == nil {
				s.Peers[pi].Plugin.SpinUs = map[string]int64{}
			}
			s.Peers[pi].Plugin.SpinUs["close"] = pick[int64](rt, "closespin", 100, 300, 1000)
			s.Bursts = append(s.Bursts, []act{{Op: "connect", P: pi}}, []act{{Op: "send", P: pi, Dir: "in", Msg: "open"}}, []act{{Op: "send", P: pi, Dir: "in", Msg: "keepalive"}})
			b = []act{{Op: "del", P: pi}, {Op: "add", P: pi}, {Op: "connect", P: pi}, {Op: "send", P: pi, Dir: "in", Msg: "open"}, {Op: "send", P: pi, Dir: "in", Msg: "keepalive"}}
			if rapid.Bool().Draw(rt, "addfirst") {
				b[0], b[1] = b[1], b[0]
			}
		default:
			for j, k := 0, rapid.IntRange(1, 4).Draw(rt, "nacts"); j < k; j++ {
				b = append(b, genAct(rt, n, prof))
			}
		}
		s.Bursts = append(s.Bursts, b)
	}
	s.Arms = armAt
	if rapid.IntRange(0, 2).Draw(rt, "arms") == 0 {
		// one or two targeted delays: the goroutine that next passes the
		// named point during that burst dawdles there while the rest of the
		// burst (an API call, a remote message) goes ahead
		for i, k := 0, rapid.IntRange(1, 2).Draw(rt, "narms"); i < k; i++ {
			s.Arms = append(s.Arms, scriptArm{
				Burst: rapid.IntRange(0, len(s.Bursts)-1).Draw(rt, "armburst"),
				Point: pick(rt, "armpoint", "fsm.enter", "fsm.enter", "fsm.transition", "peer.loop", "peer.collision"),
				Skip:  rapid.IntRange(0, 2).Draw(rt, "armskip"),
				D:     pick[int64](rt, "armd", 10, 50, 150),
			})
		}
	}
	return s
}
