package props

import (
	"bytes"
	"fmt"
	"iter"
	"testing"
	"time"

	"pgregory.net/rapid"

	"verif/sim/hx"
	"verif/sim/memnet"
	"verif/sim/wire"
	"verif/sim/world"
)

// C07 - connection collision is resolved per RFC 4271 6.8, in every arrival order.

// events: D dial accepted, I inbound connect, OO/OI remote OPEN on out/in,
// KO/KI remote KEEPALIVE on out/in.
type c07Case struct {
	LocalID  string     `json:"local_id"`
	RemoteID string     `json:"remote_id"`
	LocalAS  uint32     `json:"local_as"`
	RemoteAS uint32     `json:"remote_as"`
	Bursts   [][]string `json:"bursts"`
	Delays   []int64    `json:"delays,omitempty"`
	// Prelude: what the peer went through before the script starts. "aborted-in" /
	// "reset-in": an earlier inbound connection was closed / reset by the remote
	// right after corebgp's OPEN (a TCP failure in OpenSent); "ceased-in-oc" /
	// "closed-in-oc": it reached OpenConfirm and was then ended by a Cease / a plain
	// close. The collision that follows must be resolved as if nothing had happened.
	Prelude string `json:"prelude,omitempty"`
	// Arm: right before burst ArmBurst the (ArmSkip+1)-th next call of the named
	// schedule point is made to busy-wait ArmD x 4 us (a targeted delay, e.g. of
	// a just-created FSM before its first transition)
	ArmPoint string `json:"arm_point,omitempty"`
	ArmSkip  int    `json:"arm_skip,omitempty"`
	ArmD     int64  `json:"arm_d,omitempty"`
	ArmBurst int    `json:"arm_burst,omitempty"`
	// Hold0: "local" = the peer is configured with hold time 0, "remote" = the remote's
	// OPENs propose 0: no session timers, the collision rules are the same
	Hold0 string `json:"hold0,omitempty"`
}

func (c c07Case) burstOf(ev string) int {
	for i, b := range c.Bursts {
		for _, e := range b {
			if e == ev {
				return i
			}
		}
	}
	return -1
}

func (c c07Case) localDominant() bool {
	l, r := ipToU32(c.LocalID), ipToU32(c.RemoteID)
	return l > r || (l == r && c.LocalAS > c.RemoteAS)
}

// c07Expect derives the allowed survivors from the script alone.
func c07Expect(c c07Case) (allowed map[string]bool, collision bool, why string) {
	bOO, bOI, bKO, bKI := c.burstOf("OO"), c.burstOf("OI"), c.burstOf("KO"), c.burstOf("KI")
	allowed = map[string]bool{}
	maxO := max(bOO, bOI)
	minK := min(bKO, bKI)
	if maxO < minK {
		collision = true
		if c.localDominant() {
			allowed["out"] = true
			why = "true collision, local speaker dominant: the outbound connection must survive"
		} else {
			allowed["in"] = true
			why = "true collision, remote speaker dominant: the inbound connection must survive"
		}
		return
	}
	// one side's KEEPALIVE arrives no later than the other's OPEN
	switch {
	case bKO < bOI && !(bKI < bOO):
		allowed["out"] = true
		why = "outbound Established before the inbound OPEN exchange completed"
	case bKI < bOO && !(bKO < bOI):
		allowed["in"] = true
		why = "inbound Established before the outbound OPEN exchange completed"
	default:
		allowed["out"], allowed["in"] = true, true
		why = "KEEPALIVE and the other connection's OPEN share a burst: either"
	}
	return
}

func c07Prop(t *testing.T, r *hx.Run, sub string) func(c c07Case) hx.Verdict {
	return func(c c07Case) hx.Verdict {
		r.SetCurrent(sub, c)
		allowed, collision, why := c07Expect(c)
		dom := "remote-dominant"
		if c.localDominant() {
			dom = "local-dominant"
		}
		second := "out-second"
		if c.burstOf("OI") > c.burstOf("OO") {
			second = "in-second"
		} else if c.burstOf("OI") == c.burstOf("OO") {
			second = "same-burst"
		}
		v := hx.Verdict{Class: fmt.Sprintf("collision=%v/%s/%s/prelude=%v", collision, dom, second, c.Prelude != "")}
		if collision {
			v.NT = fmt.Sprintf("%s/%s/%d/%d/%v/%v/%s", c.LocalID, c.RemoteID, c.LocalAS, c.RemoteAS, c.Bursts, c.Delays, c.Prelude) + fmt.Sprintf("/%s/%d/%d/%d", c.ArmPoint, c.ArmSkip, c.ArmD, c.ArmBurst) + c.Hold0
		}
		p := world.PeerSpec{Remote: "10.0.0.2", LocalAS: c.LocalAS, RemoteAS: c.RemoteAS, Hold: 90}
		rhold := uint16(90)
		switch c.Hold0 {
		case "local":
			p.Hold = 0
		case "remote":
			rhold = 0
		}
		remoteID := ipToU32(c.RemoteID)
		var dev *hx.Dev
		fail := func(key, f string, a ...any) {
			if dev == nil {
				dev = hx.Devf(key, f+" ["+why+"]", a...)
			}
		}
		var serr error
		o := world.Run(t, func() {
			delays := c.Delays
			if len(delays) == 0 && c.ArmPoint != "" {
				delays = []int64{0} // installs the schedule-point hook
			}
			w, err := world.New(c.LocalID, delays)
			if err != nil {
				serr = err
				return
			}
			defer func() {
				if dev != nil {
					dev.Msg += "\n" + w.Dump()
				}
				w.Finish()
			}()
			w.Net.SetPlans(p.RemoteAddr(), memnet.DialPlan{Kind: memnet.Hold})
			if err := w.AddPeer(p); err != nil {
				serr = err
				return
			}
			w.Serve()
			w.Settle()
			conns := map[string]*memnet.Conn{}
			conns["out"] = w.Net.PendingConn(p.RemoteAddr())
			if conns["out"] == nil {
				fail("setup", "corebgp did not dial")
				return
			}
			if c.Prelude == "ended-out" || c.Prelude == "ceased-out" || c.Prelude == "ended-out-other-id" {
				// an earlier session on the outbound FSM (the same object dials again
				// afterwards), ended by the remote without damping
				oc := conns["out"]
				w.Net.Release(p.RemoteAddr())
				w.Settle()
				preID := remoteID
				if c.Prelude == "ended-out-other-id" {
					// in the earlier session the remote used another identifier, on the other side of
					// the local one: only the OPENs of the connections that collide count
					if lid := ipToU32(c.LocalID); remoteID > lid && lid > 1 {
						preID = lid - 1
					} else if remoteID <= lid && lid < 0xdffffffe {
						preID = lid + 1
					}
				}
				world.Handshake(w, p, oc, rhold, preID)
				if w.Sessions(p.Remote) != 1 {
					fail("setup", "prelude: the outbound session did not establish")
					return
				}
				if c.Prelude == "ceased-out" {
					oc.RemoteSend(wire.Notif{Code: 6, Sub: 4}.Frame(), nil)
					w.Settle()
				}
				oc.RemoteClose()
				w.Settle()
				if !w.Net.WaitDials(2, 10*time.Minute) {
					fail("setup", "prelude: corebgp did not dial again after the earlier outbound session")
					return
				}
				w.Settle()
				conns["out"] = w.Net.PendingConn(p.RemoteAddr())
				if conns["out"] == nil {
					fail("setup", "prelude: no pending dial after the earlier outbound session")
					return
				}
			} else if c.Prelude != "" {
				pc := w.Inbound(p.Remote, "10.0.0.1")
				w.Settle()
				if len(pc.Snapshot().Bytes()) == 0 {
					fail("setup", "prelude: the inbound connection was not served")
					return
				}
				switch c.Prelude {
				case "reset-in":
					pc.RemoteReset()
				case "ceased-in-oc", "closed-in-oc":
					// the earlier inbound connection got as far as OpenConfirm
					pc.RemoteSend(world.RemoteOpen(p, pc, rhold, remoteID).Frame(), nil)
					w.Settle()
					if c.Prelude == "ceased-in-oc" {
						pc.RemoteSend(wire.Notif{Code: 6, Sub: 2}.Frame(), nil)
						w.Settle()
					}
					pc.RemoteClose()
				default:
					pc.RemoteClose()
				}
				w.Settle()
				if !pc.Snapshot().LocalClosed {
					fail("prelude-connection-not-dropped", "an inbound connection closed by the remote in OpenSent is still open on corebgp's side")
					return
				}
			}
			evBase, sessBase := w.Rec.Len(), w.Sessions(p.Remote) // (an outbound prelude is a whole session)
			closedAt := map[string]int{"out": -1, "in": -1}       // burst after which the connection was found closed
			estAt := -1                                           // burst after which a session was found Established
			for bi, burst := range c.Bursts {
				if c.ArmPoint != "" && bi == c.ArmBurst {
					w.Arm(c.ArmPoint, c.ArmSkip, c.ArmD)
				}
				for _, ev := range burst {
					switch ev {
					case "D":
						w.Net.Release(p.RemoteAddr())
					case "I":
						conns["in"] = w.Inbound(p.Remote, "10.0.0.1")
					case "OO", "OI":
						if cn := conns[c07Target[ev]]; cn != nil {
							cn.RemoteSend(world.RemoteOpen(p, cn, rhold, remoteID).Frame(), nil)
						}
					case "KO", "KI":
						if cn := conns[c07Target[ev]]; cn != nil {
							cn.RemoteSend(wire.Keepalive(), nil)
						}
					}
				}
				w.Settle()
				for _, name := range []string{"out", "in"} {
					if cn := conns[name]; cn != nil && closedAt[name] < 0 && cn.Snapshot().LocalClosed {
						closedAt[name] = bi
					}
				}
				if estAt < 0 && w.Sessions(p.Remote) > sessBase {
					estAt = bi
				}
				// once a session is Established nothing else of the peer may stay open,
				// whether or not the remote goes on with the other connection
				if w.Sessions(p.Remote) > sessBase {
					nOpen := 0
					for _, name := range []string{"out", "in"} {
						if cn := conns[name]; cn != nil && !cn.Snapshot().LocalClosed {
							nOpen++
						}
					}
					if nOpen > 1 {
						fail("other-connection-open-next-to-established", "after burst %d %v a session is Established and the peer's other connection is still open", bi, burst)
						return
					}
				}
			}
			// a KEEPALIVE on whatever survives, then a tagged UPDATE
			var open []string
			for _, name := range []string{"out", "in"} {
				if cn := conns[name]; cn != nil && !cn.Snapshot().LocalClosed {
					open = append(open, name)
				}
			}
			if len(open) != 1 {
				fail("not-exactly-one-survivor", "after the script %d connections are open (%v)", len(open), open)
				return
			}
			surv := open[0]
			loser := "in"
			if surv == "in" {
				loser = "out"
			}
			if !allowed[surv] {
				fail("wrong-survivor", "the %s connection survived, allowed: %v", surv, keysOf(allowed))
				return
			}
			sc := conns[surv]
			sc.RemoteSend(wire.Keepalive(), nil)
			w.Settle()
			tag := taggedUpdate(0x07000000, 13)
			sc.RemoteSend(wire.Frame(wire.TypeUpdate, tag), nil)
			w.Settle()
			nEst, nClose, gotTag := 0, 0, false
			for _, e := range w.Rec.Events()[evBase:] {
				switch e.K {
				case "est+":
					nEst++
				case "close+":
					nClose++
				case "upd+":
					if bytes.Equal(e.Data, tag) {
						gotTag = true
					}
				}
			}
			if nEst != 1 || nClose != 0 {
				fail("survivor-not-established", "OnEstablished x%d, OnClose x%d (want 1, 0); survivor %s", nEst, nClose, surv)
				return
			}
			if !gotTag {
				fail("survivor-dead", "the UPDATE sent on the surviving %s connection did not reach the handler", surv)
				return
			}
			smsgs, perr := world.Parsed(sc)
			if perr != nil {
				fail("malformed-output", "%v", perr)
				return
			}
			for _, m := range smsgs {
				if m.Type == wire.TypeNotification {
					fail("survivor-touched", "the surviving %s connection received a NOTIFICATION", surv)
					return
				}
			}
			if sc.Snapshot().LocalClosed {
				fail("survivor-closed", "the surviving connection was closed")
				return
			}
			// the loser: closed; in a true collision a Cease precedes the close
			lc := conns[loser]
			if lc == nil {
				return
			}
			lst := lc.Snapshot()
			if !lst.LocalClosed {
				fail("loser-open", "the losing %s connection was left open", loser)
				return
			}
			// a KEEPALIVE that shares its burst with the other connection's OPEN: if the connection
			// it arrived on was nevertheless closed - after corebgp had answered its OPEN, and at a
			// time when nothing was Established yet - it lost a collision (nothing else in these
			// scripts ends a connection), and a collision's loser is told so
			if !collision && closedAt[loser] >= 0 && (estAt < 0 || closedAt[loser] < estAt) {
				if lm, _ := wire.ParseStream(lst.Bytes()); len(lm) >= 2 && lm[0].Type == wire.TypeOpen && lm[1].Type == wire.TypeKeepalive {
					collision = true
				}
			}
			if collision {
				lm, perr := wire.ParseStream(lst.Bytes())
				if perr != nil {
					fail("malformed-output", "%v", perr)
					return
				}
				if len(lm) == 0 || lm[len(lm)-1].Type != wire.TypeNotification {
					fail("loser-no-cease", "the losing %s connection was closed without a NOTIFICATION (%d messages)", loser, len(lm))
					return
				}
				n, _ := wire.ParseNotif(lm[len(lm)-1].Body)
				if n.Code != 6 {
					fail("loser-no-cease", "the losing %s connection got %v, want Cease", loser, n)
				}
			}
		})
		if serr != nil {
			fail("setup", "%v", serr)
		}
		if b := o.Bad(); b != "" {
			fail("wedge", "%s", b)
		}
		v.Dev = dev
		return v
	}
}

var c07Target = map[string]string{"OO": "out", "KO": "out", "OI": "in", "KI": "in"}

func keysOf(m map[string]bool) []string {
	var k []string
	for _, n := range []string{"out", "in"} {
		if m[n] {
			k = append(k, n)
		}
	}
	return k
}

// c07Orders enumerates every interleaving of the two per-connection chains
// D<OO<KO and I<OI<KI, and every grouping of consecutive events into bursts.
func c07Orders() [][][]string {
	a := []string{"D", "OO", "KO"}
	b := []string{"I", "OI", "KI"}
	var lin [][]string
	var rec func(i, j int, cur []string)
	rec = func(i, j int, cur []string) {
		if i == 3 && j == 3 {
			lin = append(lin, append([]string(nil), cur...))
			return
		}
		if i < 3 {
			rec(i+1, j, append(cur, a[i]))
		}
		if j < 3 {
			rec(i, j+1, append(cur, b[j]))
		}
	}
	rec(0, 0, nil)
	seen := map[string]bool{}
	var out [][][]string
	for _, l := range lin {
		for mask := 0; mask < 32; mask++ {
			var bursts [][]string
			cur := []string{l[0]}
			for k := 1; k < 6; k++ {
				if mask&(1<<(k-1)) != 0 {
					bursts = append(bursts, cur)
					cur = nil
				}
				cur = append(cur, l[k])
			}
			bursts = append(bursts, cur)
			key := fmt.Sprint(bursts)
			if !seen[key] {
				seen[key] = true
				out = append(out, bursts)
			}
		}
	}
	return out
}

type c07Cfg struct {
	lid, rid string
	las, ras uint32
}

var c07Cfgs = []c07Cfg{
	{"10.0.0.1", "10.0.0.2", 64512, 64513}, // local id <, local AS <
	{"10.0.0.1", "10.0.0.2", 64513, 64512}, // local id <, local AS >
	{"10.0.0.3", "10.0.0.2", 64512, 64513}, // local id >, local AS <
	{"10.0.0.3", "10.0.0.2", 64513, 64512}, // local id >, local AS >
	{"10.0.0.2", "10.0.0.2", 64512, 64513}, // ids equal, local AS <
	{"10.0.0.2", "10.0.0.2", 64513, 64512}, // ids equal, local AS >
	{"1.0.0.0", "0.255.255.255", 1, 4294967295},
	{"127.255.255.255", "128.0.0.0", 4294967295, 1}, // would differ under a signed comparison
}

func TestC07(t *testing.T) {
	r := hx.Start(t, "C07")
	defer r.Finish(t)
	orders := c07Orders()
	delaySets := [][]int64{nil, {1, 0, 2, 0, 3, 1, 0, 2}, {0, 3, 0, 1, 2, 0, 1, 3}, {2, 2, 1, 0, 0, 3, 1, 1}}

	reps := 1
	if !r.Quick() {
		reps = 6
	}
	hx.Enum(r, t, "all_orders_x_configs", int64(len(orders)*len(c07Cfgs)*len(delaySets)*reps), iter.Seq[c07Case](func(yield func(c07Case) bool) {
		for rep := 0; rep < reps; rep++ {
			for _, ord := range orders {
				for _, cfg := range c07Cfgs {
					for _, d := range delaySets {
						if !yield(c07Case{LocalID: cfg.lid, RemoteID: cfg.rid, LocalAS: cfg.las, RemoteAS: cfg.ras, Bursts: ord, Delays: d}) {
							return
						}
					}
				}
			}
		}
	}), c07Prop(t, r, "all_orders_x_configs"))

	// every arrival order again, after an inbound connection that failed at TCP level in OpenSent
	hx.Enum(r, t, "all_orders_after_aborted_inbound", int64(len(orders)*2*7), iter.Seq[c07Case](func(yield func(c07Case) bool) {
		for _, ord := range orders {
			for _, cfg := range []c07Cfg{c07Cfgs[0], c07Cfgs[2]} {
				for _, pre := range []string{"aborted-in", "reset-in", "ceased-in-oc", "closed-in-oc", "ended-out", "ceased-out", "ended-out-other-id"} {
					if !yield(c07Case{LocalID: cfg.lid, RemoteID: cfg.rid, LocalAS: cfg.las, RemoteAS: cfg.ras, Bursts: ord, Prelude: pre}) {
						return
					}
				}
			}
		}
	}), c07Prop(t, r, "all_orders_after_aborted_inbound"))

	// every arrival order with a negotiated hold time of 0
	hx.Enum(r, t, "all_orders_hold_zero", int64(len(orders)*2*2), iter.Seq[c07Case](func(yield func(c07Case) bool) {
		for _, ord := range orders {
			for _, cfg := range []c07Cfg{c07Cfgs[0], c07Cfgs[2]} {
				for _, h0 := range []string{"local", "remote"} {
					if !yield(c07Case{LocalID: cfg.lid, RemoteID: cfg.rid, LocalAS: cfg.las, RemoteAS: cfg.ras, Bursts: ord, Hold0: h0}) {
						return
					}
				}
			}
		}
	}), c07Prop(t, r, "all_orders_hold_zero"))

	// "one connection becomes Established before the other has finished its OPEN exchange":
	// the inbound connection arrives in the very burst that takes the outbound one to Established
	// (or the other way round), with the just-created FSM / the peer manager held for a while
	hx.Enum(r, t, "established_vs_just_accepted", 0, iter.Seq[c07Case](func(yield func(c07Case) bool) {
		for _, ord := range orders {
			for bi, burst := range ord {
				pi, pk := -1, -1
				for k, ev := range burst {
					if ev == "I" {
						pi = k
					}
					if ev == "KO" {
						pk = k
					}
				}
				if pi < 0 || pk < 0 {
					continue
				}
				for _, cfg := range []c07Cfg{c07Cfgs[0], c07Cfgs[2]} {
					for _, pt := range []string{"fsm.transition", "peer.loop"} {
						for skip := 0; skip < 2; skip++ {
							for _, d := range []int64{50, 150} {
								if !yield(c07Case{LocalID: cfg.lid, RemoteID: cfg.rid, LocalAS: cfg.las, RemoteAS: cfg.ras, Bursts: ord,
									ArmPoint: pt, ArmSkip: skip, ArmD: d, ArmBurst: bi}) {
									return
								}
							}
						}
					}
				}
			}
		}
	}), c07Prop(t, r, "established_vs_just_accepted"))

	// the would-be loser fails in the very burst that creates the collision
	dreps := r.N(3, 20)
	hx.Enum(r, t, "loser_goes_down_during_resolution", 0, iter.Seq[c07Down](func(yield func(c07Down) bool) {
		for rep := 0; rep < dreps; rep++ {
			for _, ld := range []bool{true, false} {
				for _, end := range []string{"fin", "rst", "cease"} {
					for _, of := range []bool{true, false} {
						if !yield(c07Down{LocalDominant: ld, End: end, OpenFirst: of}) {
							return
						}
						for _, pt := range []string{"peer.collision", "peer.loop", "fsm.transition"} {
							for skip := 0; skip < 3; skip++ {
								for _, d := range []int64{10, 50, 150} {
									if !yield(c07Down{LocalDominant: ld, End: end, OpenFirst: of, ArmPoint: pt, ArmSkip: skip, ArmD: d}) {
										return
									}
								}
							}
						}
					}
				}
			}
		}
	}), c07DownProp(t, r, "loser_goes_down_during_resolution"))

	hx.Rapid(r, t, "generated", r.N(3000, 30000), func(rt *rapid.T) c07Case {
		ord := orders[rapid.IntRange(0, len(orders)-1).Draw(rt, "order")]
		c := c07Case{Bursts: ord}
		rel := rapid.IntRange(0, 2).Draw(rt, "idrel")
		rid := rapid.Uint32Range(2, 0xdffffffe).Draw(rt, "rid")
		lid := rid
		switch rel {
		case 0:
			lid = rapid.Uint32Range(1, rid-1).Draw(rt, "lid")
		case 2:
			lid = rapid.Uint32Range(rid+1, 0xdfffffff).Draw(rt, "lid")
		}
		c.LocalID, c.RemoteID = u32ToIP(lid), u32ToIP(rid)
		c.LocalAS = genAS(rt, "las")
		c.RemoteAS = genAS(rt, "ras")
		if c.LocalAS == c.RemoteAS {
			if rel == 1 {
				c.RemoteAS ^= 1 // equal identifiers only with unequal AS
				if c.RemoteAS == 0 {
					c.RemoteAS = 2
				}
			}
		}
		n := rapid.IntRange(0, 10).Draw(rt, "ndelays")
		for i := 0; i < n; i++ {
			c.Delays = append(c.Delays, rapid.Int64Range(0, 3).Draw(rt, "delay"))
		}
		c.Prelude = pick(rt, "prelude", "", "", "aborted-in", "reset-in", "ceased-in-oc", "closed-in-oc", "ended-out", "ceased-out", "ended-out-other-id")
		c.Hold0 = pick(rt, "hold0", "", "", "", "local", "remote")
		if rapid.Bool().Draw(rt, "arm") {
			c.ArmPoint = pick(rt, "armpoint", "fsm.transition", "fsm.transition", "peer.loop", "peer.collision")
			c.ArmSkip = rapid.IntRange(0, 4).Draw(rt, "armskip")
			c.ArmD = pick[int64](rt, "armd", 10, 50, 150)
			c.ArmBurst = rapid.IntRange(0, len(c.Bursts)-1).Draw(rt, "armburst")
		}
		return c
	}, c07Prop(t, r, "generated"))
}

// ---- the losing connection goes down while the collision is being resolved

// The connection that would lose the collision already sits in OpenConfirm;
// the remote's OPEN on the other one (which makes it a collision) and the
// failure of the first arrive in one burst, with the peer manager or an FSM
// held at a schedule point. Whatever the interleaving, the remaining
// connection "is left untouched and becomes Established on the remote's
// KEEPALIVE".
type c07Down struct {
	LocalDominant bool   `json:"local_dominant"`
	End           string `json:"end"` // how the would-be loser goes down: fin rst cease
	OpenFirst     bool   `json:"open_first"`
	ArmPoint      string `json:"arm_point,omitempty"`
	ArmSkip       int    `json:"arm_skip,omitempty"`
	ArmD          int64  `json:"arm_d,omitempty"`
}

func c07DownProp(t *testing.T, r *hx.Run, sub string) func(c c07Down) hx.Verdict {
	return func(c c07Down) hx.Verdict {
		r.SetCurrent(sub, c)
		v := hx.Verdict{Class: fmt.Sprintf("localdominant=%v/%s/openfirst=%v/armed=%v", c.LocalDominant, c.End, c.OpenFirst, c.ArmPoint != "")}
		v.NT = fmt.Sprintf("%+v", c)
		localID, remoteID := "10.0.0.1", uint32(0x0a000002)
		if c.LocalDominant {
			localID = "10.0.0.3"
		}
		p := world.PeerSpec{Remote: "10.0.0.2", LocalAS: 64512, RemoteAS: 64513, Hold: 90}
		var dev *hx.Dev
		fail := func(key, f string, a ...any) {
			if dev == nil {
				dev = hx.Devf(key, f, a...)
			}
		}
		o := world.Run(t, func() {
			w, err := world.New(localID, []int64{0})
			if err != nil {
				fail("setup", "%v", err)
				return
			}
			defer func() {
				if dev != nil {
					dev.Msg += "\n" + w.Dump()
				}
				w.Finish()
			}()
			w.Net.SetPlans(p.RemoteAddr(), memnet.DialPlan{Kind: memnet.Hold})
			if err := w.AddPeer(p); err != nil {
				fail("setup", "%v", err)
				return
			}
			w.Serve()
			w.Settle()
			out := w.Net.PendingConn(p.RemoteAddr())
			if out == nil {
				fail("setup", "corebgp did not dial")
				return
			}
			w.Net.Release(p.RemoteAddr())
			w.Settle()
			in := w.Inbound(p.Remote, "10.0.0.1")
			w.Settle()
			if len(in.Snapshot().Bytes()) == 0 || len(out.Snapshot().Bytes()) == 0 {
				fail("setup", "both connections should be in OpenSent")
				return
			}
			// the connection initiated by the dominant speaker wins
			winner, loser := in, out
			if c.LocalDominant {
				winner, loser = out, in
			}
			loser.RemoteSend(world.RemoteOpen(p, loser, 90, remoteID).Frame(), nil) // the would-be loser reaches OpenConfirm
			w.Settle()
			if loser.Snapshot().LocalClosed {
				fail("setup", "the first OPEN was refused")
				return
			}
			if c.ArmPoint != "" {
				w.Arm(c.ArmPoint, c.ArmSkip, c.ArmD)
			}
			drop := func() {
				switch c.End {
				case "rst":
					loser.RemoteReset()
				case "cease":
					loser.RemoteSend(wire.Notif{Code: 6, Sub: 7}.Frame(), nil) // Connection Collision Resolution
					loser.RemoteClose()
				default:
					loser.RemoteClose()
				}
			}
			open := func() { winner.RemoteSend(world.RemoteOpen(p, winner, 90, remoteID).Frame(), nil) }
			if c.OpenFirst {
				open()
				drop()
			} else {
				drop()
				open()
			}
			w.Settle()
			if !loser.Snapshot().LocalClosed {
				fail("loser-not-closed", "the connection that went down is still open on corebgp's side")
				return
			}
			if winner.Snapshot().LocalClosed {
				msgs, _ := world.Parsed(winner)
				fail("survivor-closed", "the remaining connection was closed (last message from corebgp: type %v)", firstType(msgs[max(len(msgs)-1, 0):]))
				return
			}
			winner.RemoteSend(wire.Keepalive(), nil)
			w.Settle()
			if w.Sessions(p.Remote) != 1 || winner.Snapshot().LocalClosed {
				fail("survivor-not-established", "the remaining connection did not become Established on the remote's KEEPALIVE (OnEstablished x%d, closed=%v)", w.Sessions(p.Remote), winner.Snapshot().LocalClosed)
				return
			}
			tag := taggedUpdate(0x07100000, 11)
			winner.RemoteSend(wire.Frame(wire.TypeUpdate, tag), nil)
			w.Settle()
			got := false
			for _, e := range w.Rec.Events() {
				if e.K == "upd+" && bytes.Equal(e.Data, tag) {
					got = true
				}
			}
			if !got {
				fail("survivor-dead", "the Established session does not deliver UPDATEs")
			}
		})
		if b := o.Bad(); b != "" {
			fail("wedge", "%s", b)
		}
		v.Dev = dev
		return v
	}
}
