package props

import (
	"fmt"
	"iter"
	"testing"

	"pgregory.net/rapid"

	"verif/sim/hx"
	"verif/sim/wire"
	"verif/sim/world"
)

// C01 - one Established session per peer; well-formed plugin callback history.

type c01Stats struct {
	maxSessions  int
	bothDirsOpen bool
	stopInSess   bool
	noops        int
}

func isCallbackStart(k string) bool {
	switch k {
	case "caps+", "open+", "est+", "upd+", "close+":
		return true
	}
	return false
}

// c01Check evaluates the history invariants of C01 on a trace.
func c01Check(s script, tr *trace) (*hx.Dev, c01Stats) {
	var st c01Stats
	st.noops = tr.NoOps
	if b := tr.Outcome.Bad(); b != "" {
		return hx.Devf("wedge", "%s\n%s", b, tr.Dump), st
	}
	bad := func(key, f string, a ...any) (*hx.Dev, c01Stats) {
		return hx.Devf(key, f+"\n"+tr.Dump, a...), st
	}
	// (B) per-peer callback grammar
	type pst struct {
		phase    string
		sessions int
		estSeq   []int64 // est+ seq per session
		closeSeq []int64 // close- seq per session (0 = none)
	}
	peers := map[string]*pst{}
	get := func(p string) *pst {
		if peers[p] == nil {
			peers[p] = &pst{phase: "idle"}
		}
		return peers[p]
	}
	for _, e := range tr.Events {
		if e.Peer == "" {
			continue
		}
		p := get(e.Peer)
		switch e.K {
		case "est+":
			if p.phase != "idle" {
				return bad("est-overlap", "peer %s: OnEstablished (#%d) while the previous session is in phase %q - two sessions Established at once", e.Peer, e.Seq, p.phase)
			}
			p.phase = "inEst"
			p.sessions++
			p.estSeq = append(p.estSeq, e.Seq)
			p.closeSeq = append(p.closeSeq, 0)
		case "est-":
			if p.phase != "inEst" {
				return bad("callback-grammar", "peer %s: OnEstablished returned (#%d) in phase %q", e.Peer, e.Seq, p.phase)
			}
			p.phase = "up"
		case "upd+":
			if p.phase != "up" {
				return bad("update-outside-session", "peer %s: update handler called (#%d) in phase %q (must be between OnEstablished's return and OnClose, never concurrently)", e.Peer, e.Seq, p.phase)
			}
			p.phase = "inUpd"
		case "upd-":
			if p.phase != "inUpd" {
				return bad("callback-grammar", "peer %s: handler returned (#%d) in phase %q", e.Peer, e.Seq, p.phase)
			}
			p.phase = "up"
		case "close+":
			if p.phase != "up" {
				return bad("close-misplaced", "peer %s: OnClose (#%d) in phase %q", e.Peer, e.Seq, p.phase)
			}
			p.phase = "inClose"
		case "close-":
			if p.phase != "inClose" {
				return bad("callback-grammar", "peer %s: OnClose returned (#%d) in phase %q", e.Peer, e.Seq, p.phase)
			}
			p.phase = "idle"
			p.closeSeq[len(p.closeSeq)-1] = e.Seq
		}
	}
	for name, p := range peers {
		if p.sessions > st.maxSessions {
			st.maxSessions = p.sessions
		}
		if p.phase != "idle" {
			return bad("est-without-close", "peer %s: after Server.Close returned the callback history ends in phase %q (an OnEstablished without its OnClose)", name, p.phase)
		}
	}
	// (C) API stops
	for i, a := range tr.API {
		if a.Name != "del" && a.Name != "close" && a.Name != "close(final)" {
			continue
		}
		if a.Returned && a.Err != nil {
			continue // e.g. DeletePeer of a peer that is not there
		}
		if !a.Returned {
			return bad("api-blocked", "%s(%s) issued in burst %d did not return within its bound", a.Name, a.Peer, a.Burst)
		}
		// until when does the stop hold? a later add of the same peer; an add
		// that overlaps the DeletePeer call is unordered with it: no claim
		until := int64(1) << 62
		if a.Name == "del" {
			for j, b := range tr.API {
				if j == i || b.Name != "add" || b.Peer != a.Peer {
					continue
				}
				bRet := b.RetSeq
				if !b.Returned {
					bRet = int64(1) << 62
				}
				if b.CallSeq < a.RetSeq && bRet > a.CallSeq {
					until = a.RetSeq // overlapping
				} else if b.CallSeq > a.RetSeq && b.CallSeq < until {
					until = b.CallSeq
				}
			}
		}
		for name, p := range peers {
			if a.Name == "del" && name != a.Peer {
				continue
			}
			for k, es := range p.estSeq {
				// sessions Established before the call began (a session that comes
				// up during a DeletePeer overlapping an AddPeer may belong to the new
				// registration)
				lim := a.RetSeq
				if until == a.RetSeq {
					lim = a.CallSeq
				}
				if es < lim {
					if es < a.CallSeq && (p.closeSeq[k] == 0 || p.closeSeq[k] > a.CallSeq) {
						st.stopInSess = true
					}
					if p.closeSeq[k] == 0 || p.closeSeq[k] > a.RetSeq {
						return bad("close-after-api-return", "peer %s: session %d (OnEstablished #%d) had no completed OnClose when %s returned (#%d); OnClose returned at #%d", name, k, es, a.Name, a.RetSeq, p.closeSeq[k])
					}
				}
			}
		}
		for _, e := range tr.Events {
			if e.Seq > a.RetSeq && e.Seq < until && isCallbackStart(e.K) && (a.Name != "del" || e.Peer == a.Peer) {
				return bad("callback-after-stop", "peer %s: callback %s (#%d) started after %s returned (#%d)", e.Peer, e.K, e.Seq, a.Name, a.RetSeq)
			}
		}
	}
	// (D) GetCapabilities <-> OPEN on the wire
	capsExit := map[int]world.Ev{}
	capsCalls := map[string]int{}
	for _, e := range tr.Events {
		if e.K == "caps-" {
			capsExit[e.N] = e
		}
		if e.K == "caps+" {
			capsCalls[e.Peer]++
		}
	}
	handed := map[string]int{}
	nonceConn := map[int]int{}
	firstWrite := map[int]int64{}
	connDirOpen := map[string]map[bool]bool{}
	for _, c := range tr.Conns {
		peer := tr.ConnPeer[c.ID]
		if c.HandedOver {
			handed[peer]++
		}
		if len(c.Writes) > 0 {
			firstWrite[c.ID] = c.Writes[0].Seq
		}
		msgs, perr := wire.ParseStream(c.Bytes())
		if perr != nil {
			return bad("malformed-output", "conn %d: %v", c.ID, perr)
		}
		nOpen := 0
		for _, m := range msgs {
			if m.Type == wire.TypeOpen {
				nOpen++
			}
		}
		if nOpen > 1 || (nOpen == 1 && msgs[0].Type != wire.TypeOpen) {
			return bad("open-count", "conn %d: corebgp sent %d OPENs (the first message has type %d)", c.ID, nOpen, msgs[0].Type)
		}
		if nOpen == 0 {
			continue
		}
		o, err := wire.ParseOpenStrict(msgs[0].Body)
		if err != nil {
			return bad("malformed-output", "conn %d: OPEN: %v", c.ID, err)
		}
		n := world.NonceOf(o.AllCaps())
		ce, ok := capsExit[n]
		if n < 1 || !ok {
			return bad("open-without-getcapabilities", "conn %d: the OPEN carries nonce %d, no completed GetCapabilities call produced it", c.ID, n)
		}
		if ce.Peer != peer {
			return bad("open-wrong-peer-capabilities", "conn %d of peer %s carries capabilities obtained for peer %s", c.ID, peer, ce.Peer)
		}
		if prev, dup := nonceConn[n]; dup {
			return bad("capabilities-reused", "GetCapabilities call %d produced the OPENs of two connections (%d and %d)", n, prev, c.ID)
		}
		nonceConn[n] = c.ID
		if ce.Seq > c.Writes[0].Seq {
			return bad("open-before-getcapabilities", "conn %d: OPEN written (#%d) before GetCapabilities call %d returned (#%d)", c.ID, c.Writes[0].Seq, n, ce.Seq)
		}
	}
	for peer, n := range capsCalls {
		if n > handed[peer] {
			return bad("getcapabilities-extra", "peer %s: GetCapabilities called %d times for %d connections", peer, n, handed[peer])
		}
	}
	// (E) OnOpenMessage
	seenOpen := map[int]bool{}
	for _, e := range tr.Events {
		if e.K != "open+" {
			continue
		}
		if e.N < 0 || e.N >= len(tr.Conns) {
			return bad("onopen-unknown-connection", "peer %s: OnOpenMessage (#%d) with capabilities of no known connection (nonce %d)", e.Peer, e.Seq, e.N)
		}
		c := tr.Conns[e.N]
		if tr.ConnPeer[c.ID] != e.Peer || !tr.RemoteOpenSent[c.ID] {
			return bad("onopen-foreign-open", "peer %s: OnOpenMessage (#%d) carries the OPEN of connection %d (peer %s, remote sent OPEN: %v)", e.Peer, e.Seq, c.ID, tr.ConnPeer[c.ID], tr.RemoteOpenSent[c.ID])
		}
		if seenOpen[c.ID] {
			return bad("onopen-twice", "peer %s: OnOpenMessage called twice for connection %d", e.Peer, c.ID)
		}
		seenOpen[c.ID] = true
		if fw, ok := firstWrite[c.ID]; !ok || fw > e.Seq {
			return bad("onopen-before-open-sent", "peer %s: OnOpenMessage (#%d) for connection %d before corebgp's OPEN was sent on it", e.Peer, e.Seq, c.ID)
		}
		if connDirOpen[e.Peer] == nil {
			connDirOpen[e.Peer] = map[bool]bool{}
		}
		connDirOpen[e.Peer][c.Inbound] = true
	}
	for _, m := range connDirOpen {
		if m[true] && m[false] {
			st.bothDirsOpen = true
		}
	}
	return nil, st
}

func c01Prop(t *testing.T, r *hx.Run, sub string) func(s script) hx.Verdict {
	return func(s script) hx.Verdict {
		r.SetCurrent(sub, s)
		tr := runScript(t, s)
		dev, st := c01Check(s, tr)
		v := hx.Verdict{Dev: dev, Class: fmt.Sprintf("sessions=%d/bothdirs=%v/stopinsession=%v", min(st.maxSessions, 3), st.bothDirsOpen, st.stopInSess)}
		if st.maxSessions >= 2 || st.bothDirsOpen || st.stopInSess {
			v.NT = fmt.Sprintf("%+v", s)
		}
		return v
	}
}

// c07Script turns a collision order into a script.
func c07Script(c c07Case) script {
	s := script{RouterID: c.LocalID, Plans: []string{"hold"}, Delays: c.Delays,
		Peers: []world.PeerSpec{{Remote: "10.0.0.2", LocalAS: c.LocalAS, RemoteAS: c.RemoteAS, Hold: 90}}}
	for _, b := range c.Bursts {
		var burst []act
		for _, ev := range b {
			switch ev {
			case "D":
				burst = append(burst, act{Op: "release"})
			case "I":
				burst = append(burst, act{Op: "connect"})
			case "OO":
				burst = append(burst, act{Op: "send", Dir: "out", Msg: "open"})
			case "OI":
				burst = append(burst, act{Op: "send", Dir: "in", Msg: "open"})
			case "KO":
				burst = append(burst, act{Op: "send", Dir: "out", Msg: "keepalive"})
			case "KI":
				burst = append(burst, act{Op: "send", Dir: "in", Msg: "keepalive"})
			}
		}
		s.Bursts = append(s.Bursts, burst)
	}
	// afterwards: traffic on both, then the survivor fails and the peer starts over
	s.Bursts = append(s.Bursts,
		[]act{{Op: "send", Dir: "out", Msg: "keepalive"}, {Op: "send", Dir: "in", Msg: "keepalive"}},
		[]act{{Op: "send", Dir: "out", Msg: "update", Len: 9}, {Op: "send", Dir: "in", Msg: "update", Len: 9}},
		[]act{{Op: "rclose", Dir: "out"}, {Op: "rclose", Dir: "in"}},
		[]act{{Op: "connect"}},
		[]act{{Op: "send", Dir: "in", Msg: "open"}},
		[]act{{Op: "send", Dir: "in", Msg: "keepalive"}},
	)
	return s
}

var c01Profile = scriptProfile{peers: 2, bursts: 30, writes: 2, api: 3, faults: 4, sleeps: true, holdShort: true}

func TestC01(t *testing.T) {
	r := hx.Start(t, "C01")
	defer r.Finish(t)

	orders := c07Orders()
	hx.Enum(r, t, "collision_orders", int64(len(orders)*4), iter.Seq[script](func(yield func(script) bool) {
		for _, ord := range orders {
			// the scripted remote's identifier is 10.0.0.200: one remote-dominant
			// and one local-dominant configuration
			for _, lid := range []string{"10.0.0.1", "10.0.0.250"} {
				for _, d := range [][]int64{nil, {1, 0, 2, 0, 3, 1, 0, 2}} {
					c := c07Case{LocalID: lid, RemoteID: "10.0.0.200", LocalAS: 64512, RemoteAS: 64600, Bursts: ord, Delays: d}
					if !yield(c07Script(c)) {
						return
					}
				}
			}
		}
	}), c01Prop(t, r, "collision_orders"))

	hx.Rapid(r, t, "free_running_sessions", r.N(600, 8000), genFreeRunning, frProp(t, r, "free_running_sessions"))

	hx.Rapid(r, t, "churn", r.N(2500, 25000), func(rt *rapid.T) script { return genScript(rt, c01Profile) }, c01Prop(t, r, "churn"))
	// every OnEstablished has its OnClose by the return of Server.Close - of either of two
	// overlapping calls (shared with C10)
	hx.Enum(r, t, "two_closes", 0, func(yield func(c10Twice) bool) {
		for _, out := range []bool{false, true} {
			for _, after := range []int64{0, 10, 40, 100, 150, 300} {
				if !yield(c10Twice{Out: out, SpinUs: 400, AfterUs: after}) {
					return
				}
			}
		}
	}, c10TwiceProp(t, r, "two_closes"))
}
