package props

import (
	"encoding/binary"
	"errors"
	"fmt"
	"iter"
	"net/netip"
	"reflect"
	"testing"

	"github.com/jwhited/corebgp"
	"pgregory.net/rapid"

	"verif/sim/hx"
	"verif/sim/wire"
)

// C18 - typed path-attribute decoders accept exactly well-formed attributes.

type c18Case struct {
	Code  uint8  `json:"code"`
	Flags uint8  `json:"flags"`
	Val   hx.Hex `json:"val"`
}

// c18Decode runs corebgp's typed decoder and returns the decoded value in a
// canonical form comparable with c18RefValue.
func c18Decode(code uint8, flags uint8, val []byte) (any, error) {
	f := corebgp.PathAttrFlags(flags)
	b := append([]byte(nil), val...)
	switch code {
	case 1:
		var o corebgp.OriginPathAttr
		err := o.Decode(f, b)
		return uint8(o), err
	case 2:
		var a corebgp.ASPathAttr
		err := a.Decode(f, b)
		c18Interfere(err)
		return [2][]uint32{nz(a.ASSet), nz(a.ASSequence)}, err
	case 3:
		var n corebgp.NextHopPathAttr
		err := n.Decode(f, b)
		return netip.Addr(n), err
	case 4:
		var m corebgp.MEDPathAttr
		err := m.Decode(f, b)
		return uint32(m), err
	case 5:
		var l corebgp.LocalPrefPathAttr
		err := l.Decode(f, b)
		return uint32(l), err
	case 6:
		var a corebgp.AtomicAggregatePathAttr
		err := a.Decode(f, b)
		return bool(a), err
	case 7:
		var a corebgp.AggregatorPathAttr
		err := a.Decode(f, b)
		return [2]any{a.AS, a.IP}, err
	case 8:
		var c corebgp.CommunitiesPathAttr
		err := c.Decode(f, b)
		c18Interfere(err)
		return nz([]uint32(c)), err
	case 9:
		var o corebgp.OriginatorIDPathAttr
		err := o.Decode(f, b)
		return netip.Addr(o), err
	case 10:
		var c corebgp.ClusterListPathAttr
		err := c.Decode(f, b)
		c18Interfere(err)
		if c == nil {
			return []netip.Addr{}, err
		}
		return []netip.Addr(c), err
	case 32:
		var l corebgp.LargeCommunitiesPathAttr
		err := l.Decode(f, b)
		c18Interfere(err)
		out := [][3]uint32{}
		for _, x := range l {
			out = append(out, [3]uint32{x.GlobalAdmin, x.LocalData1, x.LocalData2})
		}
		return out, err
	}
	panic("no decoder")
}

// c18Interfere decodes, after a successful decode of a list-valued attribute and before
// its result is read, other well-formed list-valued attributes into receivers of their
// own: what a decoder yielded must not change when the decoders are used again.
func c18Interfere(err error) {
	if err != nil {
		return
	}
	var a corebgp.ASPathAttr
	a.Decode(0x40, []byte{2, 3, 0, 0, 0xfd, 0xe9, 0, 0, 0xfd, 0xea, 0, 0, 0xfd, 0xeb, 1, 2, 0, 0, 0, 7, 0, 0, 0, 8}) // nolint: errcheck
	var c corebgp.CommunitiesPathAttr
	c.Decode(0xc0, []byte{0xff, 0xff, 0xff, 1, 0, 100, 0, 1, 0, 100, 0, 2, 0, 100, 0, 3}) // nolint: errcheck
	var cl corebgp.ClusterListPathAttr
	cl.Decode(0x80, []byte{10, 9, 8, 7, 10, 9, 8, 6, 10, 9, 8, 5}) // nolint: errcheck
	var l corebgp.LargeCommunitiesPathAttr
	l.Decode(0xc0, []byte{0, 0, 0xfd, 0xe9, 0, 0, 0, 1, 0, 0, 0, 2, 0, 0, 0xfd, 0xea, 0, 0, 0, 3, 0, 0, 0, 4}) // nolint: errcheck
}

func nz(s []uint32) []uint32 {
	if s == nil {
		return []uint32{}
	}
	return s
}

func v4(b []byte) netip.Addr { return netip.AddrFrom4([4]byte{b[0], b[1], b[2], b[3]}) }

// c18RefValue is the reference decode of a well-formed value.
func c18RefValue(code uint8, v []byte) any {
	switch code {
	case 1:
		return v[0]
	case 2:
		r, _, _ := wire.ParseASPath(v)
		return [2][]uint32{nz(r.Set), nz(r.Sequence)}
	case 3, 9:
		return v4(v)
	case 4, 5:
		return binary.BigEndian.Uint32(v)
	case 6:
		return true
	case 7:
		return [2]any{binary.BigEndian.Uint32(v), v4(v[4:])}
	case 8:
		out := []uint32{}
		for i := 0; i+4 <= len(v); i += 4 {
			out = append(out, binary.BigEndian.Uint32(v[i:]))
		}
		return out
	case 10:
		out := []netip.Addr{}
		for i := 0; i+4 <= len(v); i += 4 {
			out = append(out, v4(v[i:]))
		}
		return out
	case 32:
		out := [][3]uint32{}
		for i := 0; i+12 <= len(v); i += 12 {
			out = append(out, [3]uint32{binary.BigEndian.Uint32(v[i:]), binary.BigEndian.Uint32(v[i+4:]), binary.BigEndian.Uint32(v[i+8:])})
		}
		return out
	}
	return nil
}

func ruleFor(code uint8) (wire.AttrRule, bool) {
	for _, r := range wire.AttrRules {
		if r.Code == code {
			return r, true
		}
	}
	return wire.AttrRule{}, false
}

// c18Judge compares the decoder's result with what rule demands. It returns
// "" when they agree, else a description.
func c18Judge(rule wire.AttrRule, flags uint8, val []byte, got any, err error) (problem string, kind string) {
	flagsOK := rule.FlagsOK(flags)
	fault, dontCare := rule.ValueFault(val)
	if dontCare {
		return "", ""
	}
	if flagsOK && fault == "" {
		if err != nil {
			return fmt.Sprintf("rejected a well-formed %s (flags %#02x, value %x): %v", rule.Name, flags, clip(val), err), "rejects-valid"
		}
		want := c18RefValue(rule.Code, val)
		if !reflect.DeepEqual(got, want) {
			return fmt.Sprintf("%s decoded to %v, the encoded value is %v", rule.Name, got, want), "wrong-value"
		}
		return "", ""
	}
	if err == nil {
		return fmt.Sprintf("accepted a malformed %s: flags %#02x (ok=%v), value %x (fault %q)", rule.Name, flags, flagsOK, clip(val), fault), "accepts-invalid"
	}
	var taw *corebgp.TreatAsWithdrawUpdateErr
	var ad *corebgp.AttrDiscardUpdateErr
	isTaW, isAD := errors.As(err, &taw), errors.As(err, &ad)
	var fb *corebgp.Notification
	wantDiscard := flagsOK && rule.Discard
	switch {
	case wantDiscard:
		if !isAD || isTaW {
			return fmt.Sprintf("malformed %s value must be attribute-discard, got %T", rule.Name, err), "wrong-approach"
		}
		fb = ad.Notification
		if ad.AsSessionReset() != fb && fb != nil {
			return "AsSessionReset does not return the fallback notification", "wrong-fallback"
		}
	default:
		if !isTaW {
			return fmt.Sprintf("malformed %s (flags ok=%v, fault %q) must be treat-as-withdraw, got %T", rule.Name, flagsOK, fault, err), "wrong-approach"
		}
		fb = taw.Notification
		if taw.AsSessionReset() != fb && fb != nil {
			return "AsSessionReset does not return the fallback notification", "wrong-fallback"
		}
	}
	if fb == nil {
		return fmt.Sprintf("%s error carries no fallback NOTIFICATION", rule.Name), "wrong-fallback"
	}
	allowed := map[uint8]bool{}
	if !flagsOK {
		allowed[4] = true
	}
	switch fault {
	case "length":
		allowed[5] = true
	case "origin-value":
		allowed[6] = true
	case "aspath":
		allowed[11] = true
		allowed[5] = true
	}
	if fb.Code != 3 || !allowed[fb.Subcode] {
		return fmt.Sprintf("%s (flags ok=%v, fault %q): fallback NOTIFICATION is (%d,%d), want code 3 subcode in %v", rule.Name, flagsOK, fault, fb.Code, fb.Subcode, keys(allowed)), "wrong-fallback"
	}
	return "", ""
}

func keys(m map[uint8]bool) []uint8 {
	var k []uint8
	for i := 0; i < 256; i++ {
		if m[uint8(i)] {
			k = append(k, uint8(i))
		}
	}
	return k
}

func c18Prop(c c18Case) hx.Verdict {
	rule, ok := ruleFor(c.Code)
	if !ok {
		return hx.Verdict{}
	}
	flagsOK := rule.FlagsOK(c.Flags)
	fault, dontCare := rule.ValueFault(c.Val)
	v := hx.Verdict{Class: fmt.Sprintf("%s/flagsok=%v/fault=%s", rule.Name, flagsOK, fault)}
	if dontCare {
		v.Class = rule.Name + "/dontcare-confed"
	}
	// non-trivial: correct flags and value within +-1 of a legal length; or
	// legal value and exactly one of the two flag bits wrong; or >= 2 segments
	oneBit := (c.Flags^correctFlags(c.Code))&0xC0 == 0x80 || (c.Flags^correctFlags(c.Code))&0xC0 == 0x40
	nt := false
	if flagsOK {
		for _, d := range []int{-1, 0, 1} {
			n := len(c.Val) + d
			if n >= 0 {
				if f, _ := rule.ValueFault(make([]byte, n)); f == "" && c.Code != 2 {
					nt = true
				}
			}
		}
	}
	if fault == "" && oneBit {
		nt = true
	}
	if c.Code == 2 {
		if r, _, _ := wire.ParseASPath(c.Val); r.Segments >= 2 {
			nt = true
		}
	}
	if nt && !dontCare {
		v.NT = fmt.Sprintf("%d/%02x/%s", c.Code, c.Flags, h64(c.Val))
	}
	got, err := c18Decode(c.Code, c.Flags, c.Val)
	problem, kind := c18Judge(rule, c.Flags, c.Val, got, err)
	if problem == "" {
		return v
	}
	key := "attr-" + kind
	switch {
	case c.Code == 6:
		// known-finding predicate: the decoder behaves exactly as if
		// ATOMIC_AGGREGATE were Optional (RFC 4271 5.1.6: well-known discretionary)
		alt := rule
		alt.Optional = true
		if p2, _ := c18Judge(alt, c.Flags, c.Val, got, err); p2 == "" {
			key = "atomic-aggregate-optional-bit"
		}
	case c.Code == 2 && kind == "wrong-value":
		if r, _, _ := wire.ParseASPath(c.Val); r.SameTypeRepeated {
			key = "aspath-segment-lost"
		}
	}
	v.Dev = hx.Devf(key, "%s", problem)
	return v
}

type c18Flags struct {
	F uint8 `json:"f"`
}

func c18FlagsProp(c c18Flags) hx.Verdict {
	f := corebgp.PathAttrFlags(c.F)
	v := hx.Verdict{NT: fmt.Sprint(c.F)}
	if f.Optional() != (c.F&0x80 != 0) || f.Transitive() != (c.F&0x40 != 0) || f.Partial() != (c.F&0x20 != 0) || f.ExtendedLen() != (c.F&0x10 != 0) {
		v.Dev = hx.Devf("flag-accessors", "flags %#02x: Optional=%v Transitive=%v Partial=%v ExtendedLen=%v", c.F, f.Optional(), f.Transitive(), f.Partial(), f.ExtendedLen())
	}
	return v
}

// validShaped returns a value of length n that is well-formed for the
// attribute if such a value exists, else deterministic bytes.
func validShaped(code uint8, n int, salt uint32) []byte {
	b := detBytes(n, salt)
	switch code {
	case 1:
		if n == 1 {
			b[0] %= 3
		}
	case 2:
		// tile with segments: prefer two segments of the same type when it fits
		if n >= 12 && (n-4)%4 == 0 {
			k := (n - 4) / 4
			k1 := k / 2
			b[0], b[1] = 2, uint8(k1)
			off := 2 + 4*k1
			b[off], b[off+1] = 2-uint8(salt%2), uint8(k-k1)
		} else if n >= 6 && (n-2)%4 == 0 && (n-2)/4 <= 255 {
			b[0], b[1] = 1+uint8(salt%2), uint8((n-2)/4)
		}
	}
	return b
}

func TestC18(t *testing.T) {
	r := hx.Start(t, "C18")
	defer r.Finish(t)

	hx.Enum(r, t, "flag_accessors", 256, func(yield func(c18Flags) bool) {
		for f := 0; f < 256; f++ {
			if !yield(c18Flags{uint8(f)}) {
				return
			}
		}
	}, c18FlagsProp)

	// every attribute x every flags octet x every value of length 0..1 (0..2 thorough)
	maxLen := 1
	if !r.Quick() {
		maxLen = 2
	}
	nvals := int64(1 + 256)
	if maxLen == 2 {
		nvals += 65536
	}
	hx.Enum(r, t, fmt.Sprintf("all_flags_x_all_values_len<=%d", maxLen), int64(len(wire.AttrRules))*256*nvals, iter.Seq[c18Case](func(yield func(c18Case) bool) {
		for _, rule := range wire.AttrRules {
			for f := 0; f < 256; f++ {
				if !yield(c18Case{rule.Code, uint8(f), []byte{}}) {
					return
				}
				for a := 0; a < 256; a++ {
					if !yield(c18Case{rule.Code, uint8(f), []byte{byte(a)}}) {
						return
					}
				}
				if maxLen >= 2 {
					for a := 0; a < 65536; a++ {
						if !yield(c18Case{rule.Code, uint8(f), []byte{byte(a >> 8), byte(a)}}) {
							return
						}
					}
				}
			}
		}
	}), c18Prop)

	// every attribute x every flags octet x boundary lengths
	lens := []int{0, 1, 2, 3, 4, 5, 6, 7, 8, 9, 10, 11, 12, 13, 14, 15, 16, 20, 23, 24, 25, 36, 254, 255, 256, 257, 1018, 1020, 1022, 1026, 4095, 4096}
	hx.Enum(r, t, "all_flags_x_boundary_lengths", int64(len(wire.AttrRules)*256*len(lens)*2), iter.Seq[c18Case](func(yield func(c18Case) bool) {
		for _, rule := range wire.AttrRules {
			for f := 0; f < 256; f++ {
				for _, n := range lens {
					if !yield(c18Case{rule.Code, uint8(f), validShaped(rule.Code, n, uint32(f))}) {
						return
					}
					if !yield(c18Case{rule.Code, uint8(f), detBytes(n, uint32(f)+7)}) {
						return
					}
				}
			}
		}
	}), c18Prop)

	genOne := func(rt *rapid.T) c18Case {
		rule := wire.AttrRules[rapid.IntRange(0, len(wire.AttrRules)-1).Draw(rt, "attr")]
		c := c18Case{Code: rule.Code, Flags: correctFlags(rule.Code)}
		switch rapid.IntRange(0, 9).Draw(rt, "fk") {
		case 0, 1:
			c.Flags = rapid.Byte().Draw(rt, "flags")
		case 2, 3, 4:
			c.Flags ^= pick[uint8](rt, "flip", 0x80, 0x40, 0xC0)
		}
		c.Flags = c.Flags&0xC0 | rapid.Byte().Draw(rt, "lowbits")&0x3F
		if rule.Code == 2 && rapid.Bool().Draw(rt, "aspath") {
			c.Val = genASPathValue(rt)
		} else {
			c.Val = genAttrValue(rt, rule.Code)
		}
		return c
	}
	hx.Rapid(r, t, "generated", r.N(200000, 2000000), genOne, c18Prop)
	hx.Rapid(r, t, "concurrent_decoders", r.N(400, 4000), genConc(genOne, 2, 6, 40), concProp(c18Prop))
}

func FuzzC18Attr(f *testing.F) {
	f.Add(uint8(2), uint8(0x40), []byte{2, 1, 0, 0, 0xfd, 0xea})
	f.Add(uint8(2), uint8(0x40), []byte{2, 1, 0, 0, 0xfd, 0xea, 2, 1, 0, 0, 0xfd, 0xeb})
	f.Add(uint8(1), uint8(0x40), []byte{1})
	f.Add(uint8(7), uint8(0xc0), []byte{0, 0, 0xfd, 0xea, 1, 2, 3, 4})
	f.Add(uint8(32), uint8(0xc0), make([]byte, 24))
	f.Fuzz(func(t *testing.T, code, flags uint8, val []byte) {
		rule := wire.AttrRules[int(code)%len(wire.AttrRules)]
		v := c18Prop(c18Case{rule.Code, flags, val})
		if v.Dev != nil && v.Dev.Key != "atomic-aggregate-optional-bit" {
			t.Fatalf("key=%s %s", v.Dev.Key, v.Dev.Msg)
		}
	})
}
