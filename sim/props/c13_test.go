package props

import (
	"bytes"
	"fmt"
	"net/netip"
	"testing"
	"time"

	"pgregory.net/rapid"

	"verif/sim/hx"
	"verif/sim/memnet"
	"verif/sim/wire"
	"verif/sim/world"
)

// C13 - only connections from configured peers to the configured address are served.

type c13Peer struct {
	Remote  string `json:"remote"`
	Local   string `json:"local,omitempty"`
	Passive bool   `json:"passive"`
	State   string `json:"state"`             // fresh aborted-in opensent openconfirm est-in est-out est-collision held-down deleted readded
	Hold0   bool   `json:"hold0,omitempty"`   // the peer is configured with hold time 0
	HD      string `json:"hd,omitempty"`      // held-down: state in which the protocol error is caused (default opensent)
	HDCode  uint8  `json:"hd_code,omitempty"` // held-down: 0 = corebgp sends the NOTIFICATION (bad marker); else the remote sends one with this code (never 6)
	ArmD    int64  `json:"arm_d,omitempty"`   // est-collision: delay of the peer manager at its collision schedule point
}

type c13Case struct {
	Peers  []c13Peer `json:"peers"`
	Closed bool      `json:"closed,omitempty"` // the server is closed before the probe
	Src    string    `json:"src"`
	Dst    string    `json:"dst"`
	// Twins: that many identical probe connections arrive back to back (no
	// settling in between): the first makes the others arrive "while that peer
	// already has an inbound connection in progress"
	Twins int `json:"twins,omitempty"`
	// Mapped: the probe's IPv4 addresses are presented in IPv4-mapped IPv6 form
	// (what a dual-stack listener reports); the same address, the same verdict
	Mapped bool    `json:"mapped,omitempty"`
	Delays []int64 `json:"delays,omitempty"`
	Gap2S  int     `json:"gap2_s,omitempty"` // held-down-2: seconds between the first and the second protocol error (default 61)
	// DelRaceD > 0: the target peer is deleted while the probe and its twins arrive and its
	// manager goroutine is held up (peer.loop busy-waits DelRaceD x 4 us): whichever comes
	// first, no connection may be left open, and none that was to be refused gets a byte
	DelRaceD int64 `json:"del_race_d,omitempty"`
	// Listeners: Serve is given that many more (idle) listeners, around the one in use
	Listeners int `json:"listeners,omitempty"`
	// AlsoMapped: once the states are prepared, a further (passive) peer is added whose remote
	// address is the IPv4-mapped IPv6 form of the target's IPv4 address: another key, another
	// peer - the verdict on a connection from the IPv4 address itself stays what it was
	AlsoMapped bool `json:"also_mapped,omitempty"`
}

func c13Spec(p c13Peer, i int) world.PeerSpec {
	sp := world.PeerSpec{Remote: p.Remote, Local: p.Local, LocalAS: 64512, RemoteAS: uint32(64600 + i), Passive: p.Passive, Hold: 90}
	if p.Hold0 {
		sp.Hold = 0
	}
	return sp
}

// c13Admit is the reference admission rule.
func c13Admit(c c13Case) (admit bool, target int, why string) {
	if c.Closed {
		return false, -1, "server closed"
	}
	src, dst := netip.MustParseAddr(c.Src), netip.MustParseAddr(c.Dst)
	for i, p := range c.Peers {
		if netip.MustParseAddr(p.Remote) != src {
			continue
		}
		if p.State == "deleted" {
			return false, i, "peer deleted"
		}
		if p.Local != "" && netip.MustParseAddr(p.Local) != dst {
			return false, i, "destination is not the configured local address"
		}
		switch p.State {
		case "opensent", "openconfirm":
			return false, i, "inbound connection in progress"
		case "est-in", "est-out", "est-collision":
			return false, i, "session Established"
		case "held-down", "held-down-2":
			return false, i, "peer held down"
		}
		return true, i, "configured peer, " + p.State
	}
	return false, -1, "source is not a configured peer"
}

func c13Prop(t *testing.T, r *hx.Run) func(c c13Case) hx.Verdict {
	return func(c c13Case) hx.Verdict {
		r.SetCurrent("admission", c)
		admit, target, why := c13Admit(c)
		st := "none"
		if target >= 0 {
			st = c.Peers[target].State
		}
		v := hx.Verdict{Class: fmt.Sprintf("admit=%v/%s/%s/twins=%v/delrace=%v", admit, st, why, c.Twins > 0, c.DelRaceD > 0)}
		if target >= 0 {
			v.NT = fmt.Sprintf("%+v", c)
		}
		var dev *hx.Dev
		fail := func(key, f string, a ...any) {
			if dev == nil {
				dev = hx.Devf(key, f+" [expected admit=%v: %s]", append(a, admit, why)...)
			}
		}
		o := world.Run(t, func() {
			delays := c.Delays
			for _, p := range c.Peers {
				if p.State == "est-collision" && len(delays) == 0 {
					delays = []int64{0} // installs the schedule-point hook that Arm needs
				}
			}
			delRace := c.DelRaceD > 0 && target >= 0 && c.Peers[target].State != "deleted" && !c.Closed
			if delRace && len(delays) == 0 {
				delays = []int64{0}
			}
			w, err := world.New("10.0.0.1", delays)
			if err != nil {
				fail("setup", "%v", err)
				return
			}
			defer func() {
				if dev != nil {
					dev.Msg += "\n" + w.Dump()
				}
				w.Finish()
			}()
			for i, p := range c.Peers {
				sp := c13Spec(p, i)
				if p.State == "est-out" || p.State == "est-collision" {
					w.Net.SetPlans(sp.RemoteAddr(), memnet.DialPlan{Kind: memnet.Accept}, memnet.DialPlan{Kind: memnet.Refuse})
				}
				if err := w.AddPeer(sp); err != nil {
					fail("setup", "AddPeer(%+v): %v", p, err)
					return
				}
			}
			w.ExtraListeners(c.Listeners)
			w.Serve()
			w.Settle()
			// bring every peer to its state; remember established connections
			type estConn struct {
				peer int
				c    *memnet.Conn
			}
			var ests []estConn
			// states that take virtual time to prepare come first, so that they
			// do not outlast the other peers' hold-downs and sessions
			order := []int{}
			for i, p := range c.Peers {
				if p.State == "held-down-2" {
					order = append(order, i)
				}
			}
			for i, p := range c.Peers {
				if p.State != "held-down-2" {
					order = append(order, i)
				}
			}
			// second-episode hold-downs: all first errors together, one wait, all second errors
			bad := wire.Keepalive()
			bad[0] = 0
			anyTwo := false
			for round := 0; round < 2; round++ {
				for i, p := range c.Peers {
					if p.State != "held-down-2" {
						continue
					}
					anyTwo = true
					sp := c13Spec(p, i)
					cn := w.Inbound(p.Remote, world.LocalFor(sp))
					w.Settle()
					if len(cn.Snapshot().Bytes()) == 0 {
						fail("setup-admission", "preparing state held-down-2 (round %d): inbound connection of peer %s was not served", round, p.Remote)
						return
					}
					cn.RemoteSend(bad, nil)
					w.Settle()
				}
				if round == 0 && anyTwo {
					gap := 61 * time.Second // sit out the first hold-down (60 s)
					if c.Gap2S > 61 {
						gap = time.Duration(c.Gap2S) * time.Second // e.g. past the 300 s after which the first error is forgotten
					}
					w.Advance(gap)
				}
			}
			for _, i := range order {
				p := c.Peers[i]
				if p.State == "held-down-2" {
					continue
				}
				sp := c13Spec(p, i)
				dst := world.LocalFor(sp)
				switch p.State {
				case "opensent", "openconfirm", "est-in", "held-down", "aborted-in":
					cn := w.Inbound(p.Remote, dst)
					w.Settle()
					if len(cn.Snapshot().Bytes()) == 0 {
						fail("setup-admission", "preparing state %s: the first inbound connection of peer %s was not served", p.State, p.Remote)
						return
					}
					switch p.State {
					case "openconfirm":
						cn.RemoteSend(world.RemoteOpen(sp, cn, 90, 0x0a000063+uint32(i)).Frame(), nil)
					case "est-in":
						world.Handshake(w, sp, cn, 90, 0x0a000063+uint32(i))
						ests = append(ests, estConn{i, cn})
					case "held-down":
						switch p.HD {
						case stOpenConfirm:
							cn.RemoteSend(world.RemoteOpen(sp, cn, 90, 0x0a000063+uint32(i)).Frame(), nil)
							w.Settle()
						case stEstablished:
							world.Handshake(w, sp, cn, 90, 0x0a000063+uint32(i))
						}
						if p.HDCode != 0 {
							cn.RemoteSend(wire.Notif{Code: p.HDCode, Sub: 1}.Frame(), nil) // a received protocol error
							w.Settle()
							cn.RemoteClose()
						} else {
							cn.RemoteSend(bad, nil) // Connection Not Synchronized: a protocol error
						}
					case "aborted-in":
						// a TCP failure in OpenSent: no hold-down, nothing in progress afterwards
						cn.RemoteClose()
					}
					w.Settle()
				case "est-out":
					cn := w.DialedConn(p.Remote, 0)
					if cn == nil {
						fail("setup", "peer %s did not dial", p.Remote)
						return
					}
					world.Handshake(w, sp, cn, 90, 0x0a000063+uint32(i))
					ests = append(ests, estConn{i, cn})
				case "est-collision":
					// Established through a connection collision: the inbound
					// connection reaches OpenConfirm (a collision the remote wins) in the
					// same instant the outbound one is taken on to Established
					outc := w.DialedConn(p.Remote, 0)
					if outc == nil {
						fail("setup", "peer %s did not dial", p.Remote)
						return
					}
					inc := w.Inbound(p.Remote, dst)
					w.Settle()
					if len(inc.Snapshot().Bytes()) == 0 {
						fail("setup-admission", "preparing state est-collision: the inbound connection of peer %s was not served", p.Remote)
						return
					}
					outc.RemoteSend(world.RemoteOpen(sp, outc, 90, 0x0a000063+uint32(i)).Frame(), nil)
					w.Settle()
					if p.ArmD > 0 {
						w.Arm("peer.collision", 0, p.ArmD)
					}
					inc.RemoteSend(world.RemoteOpen(sp, inc, 90, 0x0a000063+uint32(i)).Frame(), nil)
					outc.RemoteSend(wire.Keepalive(), nil)
					w.Settle()
					var surv *memnet.Conn
					for _, cn := range []*memnet.Conn{inc, outc} {
						if cn.Snapshot().LocalClosed {
							continue
						}
						if surv != nil {
							fail("setup-collision", "preparing state est-collision: both connections of peer %s are still open", p.Remote)
							return
						}
						surv = cn
					}
					if surv == nil {
						fail("setup-collision", "preparing state est-collision: both connections of peer %s were closed", p.Remote)
						return
					}
					if surv == inc {
						inc.RemoteSend(wire.Keepalive(), nil)
						w.Settle()
					}
					ests = append(ests, estConn{i, surv})
				case "deleted", "readded":
					w.Call("DeletePeer", p.Remote, 10*time.Second, func() { w.Srv.DeletePeer(sp.RemoteAddr()) })
					if p.State == "readded" {
						if err := w.AddPeer(sp); err != nil {
							fail("setup", "re-AddPeer: %v", err)
							return
						}
					}
					w.Settle()
				}
			}
			for _, e := range ests {
				if w.Sessions(c.Peers[e.peer].Remote) != 1 {
					fail("setup", "peer %s did not establish", c.Peers[e.peer].Remote)
					return
				}
			}
			if c.AlsoMapped && target >= 0 && !c.Mapped && c.Peers[target].State != "deleted" {
				if ta := netip.MustParseAddr(c.Peers[target].Remote); ta.Is4() {
					msp := world.PeerSpec{Remote: netip.AddrFrom16(ta.As16()).String(), LocalAS: 64512, RemoteAS: 64999, Passive: true, Hold: 90}
					if err := w.AddPeer(msp); err != nil {
						fail("setup", "AddPeer(%s): %v", msp.Remote, err)
						return
					}
					w.Settle()
				}
			}
			if c.Closed {
				w.Call("Close", "", 10*time.Second, w.Srv.Close)
				w.Settle()
				ests = nil
			}
			evBefore := w.Rec.Len()
			connect := w.Inbound
			if c.Mapped {
				connect = w.InboundMapped
			}
			if delRace {
				w.Arm("peer.loop", 0, c.DelRaceD)
			}
			probe := connect(c.Src, c.Dst)
			var twins []*memnet.Conn
			for k := 0; k < c.Twins; k++ {
				if delRace {
					// the manager goroutine has dealt with the previous connection and
					// dawdles at the top of its loop when the next one arrives
					memnet.Spin(c.DelRaceD)
				}
				twins = append(twins, connect(c.Src, c.Dst))
			}
			if delRace {
				memnet.Spin(c.DelRaceD)
				tp := c13Spec(c.Peers[target], target)
				w.Call("DeletePeer", tp.Remote, 10*time.Second, func() { w.Srv.DeletePeer(tp.RemoteAddr()) })
				w.Settle()
				for _, cn := range append([]*memnet.Conn{probe}, twins...) {
					st := cn.Snapshot()
					if !st.LocalClosed {
						fail("left-open-by-deletion", "connection %d (%s -> %s) arrived while peer %s was being deleted and is still open afterwards (bytes=%d)", st.ID, c.Src, c.Dst, tp.Remote, len(st.Bytes()))
						return
					}
					if !admit && len(st.Writes) != 0 {
						fail("bytes-on-refused", "connection %s -> %s must be refused before and after the deletion of %s, corebgp wrote %d bytes on it", c.Src, c.Dst, tp.Remote, len(st.Bytes()))
						return
					}
				}
				return
			}
			w.Settle()
			if len(twins) > 0 {
				// exactly one of the identical connections may be served (when
				// admission is due at all); all the others are closed with zero bytes
				served := 0
				for _, cn := range append([]*memnet.Conn{probe}, twins...) {
					st := cn.Snapshot()
					switch {
					case len(st.Bytes()) > 0 && !st.LocalClosed:
						served++
					case len(st.Writes) == 0 && st.LocalClosed:
					default:
						fail("twin-neither-served-nor-closed", "%d identical connections %s -> %s arrived back to back; connection %d: bytes=%d closed=%v (must be either served or closed with zero bytes)", 1+c.Twins, c.Src, c.Dst, st.ID, len(st.Bytes()), st.LocalClosed)
						return
					}
				}
				want := 0
				if admit {
					want = 1
				}
				if served != want {
					fail("twin-served-count", "%d identical connections %s -> %s arrived back to back: %d were handed to a session, want %d", 1+c.Twins, c.Src, c.Dst, served, want)
				}
				return
			}
			ps := probe.Snapshot()
			if admit {
				msgs, perr := wire.ParseStream(ps.Bytes())
				if perr != nil || len(msgs) != 1 || msgs[0].Type != wire.TypeOpen || ps.LocalClosed {
					fail("not-served", "connection %s -> %s should be handed to a session: %d messages, err=%v, closed=%v", c.Src, c.Dst, len(msgs), perr, ps.LocalClosed)
				}
				return
			}
			if len(ps.Writes) != 0 {
				fail("bytes-on-refused", "connection %s -> %s must be refused, corebgp wrote %d bytes on it", c.Src, c.Dst, len(ps.Bytes()))
				return
			}
			if !ps.LocalClosed {
				fail("refused-not-closed", "connection %s -> %s must be refused, it was left open", c.Src, c.Dst)
				return
			}
			if n := w.Rec.Len(); n != evBefore {
				fail("callback-on-refused", "%d plugin callbacks ran because of a refused connection (first %s)", n-evBefore, w.Rec.Events()[evBefore].K)
				return
			}
			// no effect on existing sessions
			for k, e := range ests {
				tag := taggedUpdate(uint32(0x13000000+k), 10)
				e.c.RemoteSend(wire.Frame(wire.TypeUpdate, tag), nil)
				w.Settle()
				ok := false
				for _, ev := range w.Rec.Events()[evBefore:] {
					if ev.K == "upd+" && bytes.Equal(ev.Data, tag) {
						ok = true
					}
				}
				if !ok || e.c.Snapshot().LocalClosed {
					fail("existing-session-disturbed", "after the refused connection the Established session of %s no longer delivers UPDATEs (closed=%v)", c.Peers[e.peer].Remote, e.c.Snapshot().LocalClosed)
					return
				}
			}
		})
		if b := o.Bad(); b != "" {
			fail("wedge", "%s", b)
		}
		v.Dev = dev
		return v
	}
}

func genC13(rt *rapid.T) c13Case {
	v4 := []string{"10.0.0.2", "10.0.0.3", "10.0.0.4"}
	v6 := []string{"2001:db8::2", "2001:db8::3"}
	var c c13Case
	n := rapid.IntRange(1, 4).Draw(rt, "npeers")
	used := map[string]bool{}
	for i := 0; i < n; i++ {
		pool := v4
		if rapid.IntRange(0, 2).Draw(rt, "v6") == 0 {
			pool = v6
		}
		rem := pool[rapid.IntRange(0, len(pool)-1).Draw(rt, "remote")]
		if used[rem] {
			continue
		}
		used[rem] = true
		p := c13Peer{Remote: rem, Passive: rapid.Bool().Draw(rt, "passive"), Hold0: rapid.IntRange(0, 3).Draw(rt, "hold0") == 0}
		if rapid.Bool().Draw(rt, "withlocal") {
			if netip.MustParseAddr(rem).Is4() {
				p.Local = pick(rt, "local4", "10.0.0.1", "10.0.1.1")
			} else {
				p.Local = pick(rt, "local6", "2001:db8::1", "2001:db8:1::1")
			}
		}
		p.State = pick(rt, "state", "fresh", "fresh", "aborted-in", "opensent", "openconfirm", "est-in", "est-out", "est-collision", "held-down", "held-down-2", "deleted", "readded")
		if (p.State == "est-out" || p.State == "est-collision") && p.Passive {
			p.Passive = false
		}
		if p.State == "est-collision" {
			p.ArmD = pick[int64](rt, "armd", 0, 10, 50, 150)
		}
		if p.Local != "" && rapid.IntRange(0, 4).Draw(rt, "unspecified") == 0 {
			// a configured local address that no connection can have as its
			// destination: every inbound connection of this peer is refused (so
			// no state that needs one can be prepared)
			p.Local = map[bool]string{true: "0.0.0.0", false: "::"}[netip.MustParseAddr(rem).Is4()]
			p.State = "fresh"
			p.Passive = true
		}
		if p.State == "held-down" {
			p.HD = pick(rt, "hd", "", stOpenConfirm, stEstablished)
			p.HDCode = pick[uint8](rt, "hdcode", 0, 0, 1, 2, 3, 4, 5, 7, 8, 255, 100)
		}
		c.Peers = append(c.Peers, p)
	}
	c.Closed = rapid.IntRange(0, 14).Draw(rt, "closed") == 0
	for _, p := range c.Peers {
		if p.State == "held-down-2" {
			c.Gap2S = pick(rt, "gap2", 61, 61, 299, 301, 600)
			break
		}
	}
	for _, p := range c.Peers {
		if p.State == "est-out" || p.State == "est-collision" {
			// their outbound connection is made at Serve time and would sit out its
			// 4-minute OpenSent timer during a long gap
			c.Gap2S = min(c.Gap2S, 61)
		}
	}
	// probe
	tp := c.Peers[rapid.IntRange(0, len(c.Peers)-1).Draw(rt, "target")]
	switch rapid.IntRange(0, 9).Draw(rt, "srckind") {
	case 0:
		c.Src = pick(rt, "unconf", "10.9.9.9", "2001:db8::99", "10.0.0.1", "10.0.0.20", "2001:db8::20")
	default:
		c.Src = tp.Remote
	}
	is4 := netip.MustParseAddr(c.Src).Is4()
	right := tp.Local
	if right == "" || netip.MustParseAddr(right).Is4() != is4 || netip.MustParseAddr(right).IsUnspecified() {
		if is4 {
			right = "10.0.0.1"
		} else {
			right = "2001:db8::1"
		}
	}
	switch rapid.IntRange(0, 5).Draw(rt, "dstkind") {
	case 0:
		if is4 {
			// (the last three extend the text of a configured local address: 10.0.0.1 / 10.0.1.1)
			c.Dst = pick(rt, "wrong4", "10.0.0.77", "10.0.1.1", "10.0.0.1", "127.0.0.1", "10.0.0.10", "10.0.0.123", "10.0.1.19")
		} else {
			c.Dst = pick(rt, "wrong6", "2001:db8::77", "2001:db8:1::1", "2001:db8::1", "::1", "2001:db8::10", "2001:db8::1:1", "2001:db8:1::1f")
		}
	default:
		c.Dst = right
	}
	c.Mapped = rapid.IntRange(0, 4).Draw(rt, "mapped") == 0
	c.Listeners = pick(rt, "listeners", 0, 0, 0, 1, 2)
	c.AlsoMapped = rapid.IntRange(0, 4).Draw(rt, "alsomapped") == 0
	if rapid.IntRange(0, 5).Draw(rt, "delrace") == 0 {
		c.DelRaceD = pick[int64](rt, "delraced", 20, 80, 150)
		c.Twins = max(c.Twins, 1)
	}
	if rapid.IntRange(0, 3).Draw(rt, "twins") == 0 {
		c.Twins = rapid.IntRange(1, 3).Draw(rt, "ntwins")
		if rapid.Bool().Draw(rt, "delays") {
			for i, k := 0, rapid.IntRange(1, 6).Draw(rt, "ndelays"); i < k; i++ {
				c.Delays = append(c.Delays, rapid.Int64Range(0, 3).Draw(rt, "delay"))
			}
		}
	}
	return c
}

func TestC13(t *testing.T) {
	r := hx.Start(t, "C13")
	defer r.Finish(t)
	hx.Rapid(r, t, "admission", r.N(5000, 40000), genC13, c13Prop(t, r))
}
