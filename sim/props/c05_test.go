package props

import (
	"errors"
	"fmt"
	"iter"
	"net/netip"
	"sync"
	"testing"
	"time"

	"github.com/jwhited/corebgp"
	"pgregory.net/rapid"

	"verif/sim/hx"
	"verif/sim/memnet"
	"verif/sim/wire"
	"verif/sim/world"
)

// C05 - no remote input or API sequence can crash or wedge the process.

// ---- (a) byte streams in every state

type c05Stream struct {
	State  string   `json:"state"`
	Out    bool     `json:"out"`
	Chunks []hx.Hex `json:"chunks"` // concatenated and delivered after the state is reached
	Cuts   []int    `json:"cuts,omitempty"`
	End    string   `json:"end,omitempty"`   // "", close, reset
	LHold  int      `json:"lhold,omitempty"` // local hold time of the target peer
	SpinCb string   `json:"spin_cb,omitempty"`
	// PrevHolds: earlier sessions of the target peer on the same direction (outbound: on the
	// same FSM object), each with that remote hold time, ended by the remote's close
	PrevHolds []uint16 `json:"prev_holds,omitempty"`
	// RHold0: the remote's OPEN of the session under test proposes hold time 0
	RHold0 bool `json:"rhold0,omitempty"`
}

func c05StreamProp(t *testing.T, r *hx.Run) func(c c05Stream) hx.Verdict {
	return func(c c05Stream) hx.Verdict {
		r.SetCurrent("streams_in_every_state", c)
		var stream []byte
		for _, ch := range c.Chunks {
			stream = append(stream, ch...)
		}
		dir := "in"
		if c.Out {
			dir = "out"
		}
		v := hx.Verdict{Class: fmt.Sprintf("%s/%s/end=%s", c.State, dir, c.End)}
		a := basePeer(c.Out)
		a.Hold = c.LHold
		if c.SpinCb != "" {
			a.Plugin.SpinUs = map[string]int64{c.SpinCb: 10}
		}
		b := world.PeerSpec{Remote: "10.0.0.9", LocalAS: 64512, RemoteAS: 64999, Passive: true, Hold: 90}
		var dev *hx.Dev
		fail := func(key, f string, x ...any) {
			if dev == nil {
				dev = hx.Devf(key, f, x...)
			}
		}
		consumedBeyond := false
		o := world.Run(t, func() {
			w, err := world.New("10.0.0.1", nil)
			if err != nil {
				fail("setup", "%v", err)
				return
			}
			defer func() {
				if dev != nil {
					dev.Msg += "\n" + w.Dump()
				}
			}()
			if c.Out {
				plans := []memnet.DialPlan{}
				for i := 0; i <= len(c.PrevHolds); i++ {
					plans = append(plans, memnet.DialPlan{Kind: memnet.Accept})
				}
				w.Net.SetPlans(a.RemoteAddr(), append(plans, memnet.DialPlan{Kind: memnet.Refuse})...)
			}
			if err := w.AddPeer(a); err != nil {
				fail("setup", "%v", err)
				return
			}
			if err := w.AddPeer(b); err != nil {
				fail("setup", "%v", err)
				return
			}
			w.Serve()
			w.Settle()
			var conn *memnet.Conn
			getConn := func(k int) *memnet.Conn {
				if !c.Out {
					cn := w.Inbound(a.Remote, "10.0.0.1")
					w.Settle()
					return cn
				}
				if k > 0 {
					if !w.Net.WaitDials(k+1, 10*time.Minute) {
						return nil
					}
					w.Settle()
				}
				return w.DialedConn(a.Remote, k)
			}
			for k, ph := range c.PrevHolds {
				pc := getConn(k)
				if pc == nil {
					fail("setup", "no connection for earlier session %d", k)
					w.Finish()
					return
				}
				world.Handshake(w, a, pc, ph, 0x0a000002)
				pc.RemoteClose()
				w.Settle()
			}
			conn = getConn(len(c.PrevHolds))
			if conn == nil {
				fail("setup", "no connection")
				w.Finish()
				return
			}
			rhold := uint16(90)
			if c.RHold0 {
				rhold = 0
			}
			for _, m := range handshakeBytes(a, conn, c.State, rhold) {
				conn.RemoteSend(m, nil)
				w.Settle()
			}
			base := conn.Snapshot().Consumed
			conn.RemoteSend(stream, c.Cuts)
			switch c.End {
			case "close":
				conn.RemoteClose()
			case "reset":
				conn.RemoteReset()
			}
			w.Settle()
			consumedBeyond = conn.Snapshot().Consumed > base
			// time passes: timers of whatever state the input left behind
			w.Advance(pick2(len(stream)%3, 100*time.Millisecond, 7*time.Second, 5*time.Minute))
			// the other peer still gets a session
			t0 := w.Net.Since()
			cb := w.Inbound(b.Remote, "10.0.0.1")
			w.Settle()
			for _, m := range handshakeBytes(b, cb, stEstablished, 90) {
				cb.RemoteSend(m, nil)
				w.Settle()
			}
			if w.Sessions(b.Remote) != 1 || cb.Snapshot().LocalClosed {
				fail("other-peer-not-served", "after the input on peer %s's connection, peer %s cannot establish a session (OnEstablished x%d, closed=%v, %v later)", a.Remote, b.Remote, w.Sessions(b.Remote), cb.Snapshot().LocalClosed, w.Net.Since()-t0)
				return
			}
			// and every byte corebgp wrote is still whole messages
			for _, cn := range w.Net.Conns() {
				if _, perr := wire.ParseStream(cn.Snapshot().Bytes()); perr != nil {
					fail("malformed-output", "conn %d: %v", cn.Snapshot().ID, perr)
					return
				}
			}
			ok, took := w.Call("Close", "", 5*time.Second, w.Srv.Close)
			if !ok {
				fail("close-blocked", "Server.Close did not return within %v after the input", took)
				return
			}
			w.Finish()
		})
		if bad := o.Bad(); bad != "" {
			fail("wedge", "%s", bad)
		}
		if consumedBeyond {
			v.NT = fmt.Sprintf("%s/%s/%s/%s", c.State, dir, h64(stream), c.End)
		}
		v.Dev = dev
		return v
	}
}

func pick2[T any](i int, vs ...T) T { return vs[i%len(vs)] }

func genC05Chunk(rt *rapid.T) []byte {
	switch rapid.IntRange(0, 13).Draw(rt, "ck") {
	case 0:
		return wire.Keepalive()
	case 1:
		return wire.Frame(wire.TypeUpdate, genBytes(rt, "upd", 40))
	case 2:
		b, _ := genUpdateBody(rt)
		if len(b) > wire.MaxBody {
			b = b[:wire.MaxBody]
		}
		return wire.Frame(wire.TypeUpdate, b)
	case 3:
		return wire.Notif{Code: rapid.Byte().Draw(rt, "ncode"), Sub: rapid.Byte().Draw(rt, "nsub"), Data: genBytes(rt, "ndata", 6)}.Frame()
	case 4:
		o := genOpenValue(rt)
		b, _ := mutateBytes(rt, o.Body())
		if len(b) > wire.MaxBody {
			b = b[:wire.MaxBody]
		}
		return wire.Frame(wire.TypeOpen, b)
	case 5:
		// every OPEN field at its extremes
		o := wire.NewOpen(64513, pick[uint16](rt, "xhold", 0, 1, 2, 3, 65535), pick[uint32](rt, "xid", 0, 0xffffffff, 0xe0000001, 0x0a000002))
		o.Version = pick[uint8](rt, "xver", 4, 0, 255)
		b := o.Body()
		if rapid.Bool().Draw(rt, "xopt") {
			b[9] = pick[uint8](rt, "xoptlen", 0, 255, 1)
		}
		return wire.Frame(wire.TypeOpen, b)
	case 6:
		// valid marker, arbitrary type and length, some body
		h := wire.RawHeader(wire.GoodMarker(), pick[uint16](rt, "hlen", 0, 18, 19, 20, 4096, 4097, 65535, uint16(rapid.IntRange(19, 300).Draw(rt, "hlenr"))), rapid.Byte().Draw(rt, "htype"))
		return append(h, genBytes(rt, "hbody", 40)...)
	case 7:
		// truncated message
		m := wire.Frame(pick[uint8](rt, "ttype", 1, 2, 3, 4), genBytes(rt, "tbody", 30))
		return m[:rapid.IntRange(0, len(m)-1).Draw(rt, "tcut")]
	case 8:
		m := wire.Keepalive()
		m[rapid.IntRange(0, 15).Draw(rt, "mpos")] = rapid.Byte().Draw(rt, "mval")
		return m
	case 9:
		return genBytesN(rt, "rand", pick(rt, "rlen", 1, 19, 100, 4096, 3*4096, rapid.IntRange(0, 600).Draw(rt, "rlenr")))
	case 10:
		// a maximal message
		return wire.Frame(pick[uint8](rt, "maxtype", 1, 2, 3, 4), genBytesN(rt, "maxbody", wire.MaxBody))
	case 11:
		return wire.Frame(wire.TypeNotification, genBytes(rt, "shortnotif", 1))
	case 12:
		return wire.Frame(wire.TypeKeepalive, genBytes(rt, "kabody", 30))
	default:
		return wire.Frame(wire.TypeUpdate, world.MagicUpdate(rapid.Byte().Draw(rt, "mcode"), 0, genBytes(rt, "mdata", 3)))
	}
}

func genC05Stream(rt *rapid.T) c05Stream {
	c := c05Stream{State: pick(rt, "state", allStates...), Out: rapid.Bool().Draw(rt, "out"), End: pick(rt, "end", "", "", "close", "reset"),
		LHold: pick(rt, "lhold", 90, 3, 0)}
	total := 0
	for i, n := 0, rapid.IntRange(1, 6).Draw(rt, "nchunks"); i < n; i++ {
		ch := genC05Chunk(rt)
		c.Chunks = append(c.Chunks, ch)
		total += len(ch)
	}
	c.Cuts = genCuts(rt, total)
	if rapid.IntRange(0, 6).Draw(rt, "spin") == 0 {
		c.SpinCb = pick(rt, "spincb", "open", "est", "upd", "close")
	}
	if rapid.IntRange(0, 3).Draw(rt, "withprev") == 0 {
		for i, n := 0, rapid.IntRange(1, 2).Draw(rt, "nprev"); i < n; i++ {
			c.PrevHolds = append(c.PrevHolds, pick[uint16](rt, "prevhold", 90, 3, 0))
		}
	}
	c.RHold0 = rapid.IntRange(0, 3).Draw(rt, "rhold0") == 0
	return c
}

// ---- (b) exported decoders never panic

type c05Ctx struct{ addPath bool }

var c05Reach = corebgp.NewMPReachNLRIDecodeFn[*c05Ctx](func(c *c05Ctx, afi uint16, safi uint8, nh, nlri []byte) error {
	var errs []error
	if _, err := corebgp.DecodeMPReachIPv6NextHops(nh); err != nil {
		errs = append(errs, err)
	}
	if c.addPath {
		_, err := corebgp.DecodeMPIPv6AddPathPrefixes(nlri)
		errs = append(errs, err)
	} else {
		_, err := corebgp.DecodeMPIPv6Prefixes(nlri)
		errs = append(errs, err)
	}
	return errors.Join(errs...)
})

var c05Unreach = corebgp.NewMPUnreachNLRIDecodeFn[*c05Ctx](func(c *c05Ctx, afi uint16, safi uint8, wd []byte) error {
	if c.addPath {
		_, err := corebgp.DecodeMPIPv6AddPathPrefixes(wd)
		return err
	}
	_, err := corebgp.DecodeMPIPv6Prefixes(wd)
	return err
})

func c05Attr(c *c05Ctx, code uint8, flags corebgp.PathAttrFlags, b []byte) error {
	switch code {
	case 14:
		return c05Reach(c, flags, b)
	case 15:
		return c05Unreach(c, flags, b)
	}
	if _, ok := ruleFor(code); ok {
		_, err := c18Decode(code, uint8(flags), b)
		return err
	}
	return nil
}

var c05Decoders = [2]*corebgp.UpdateDecoder[*c05Ctx]{
	corebgp.NewUpdateDecoder[*c05Ctx](
		corebgp.NewWithdrawnRoutesDecodeFn[*c05Ctx](func(*c05Ctx, []netip.Prefix) error { return nil }),
		c05Attr,
		corebgp.NewNLRIDecodeFn[*c05Ctx](func(*c05Ctx, []netip.Prefix) error { return nil })),
	corebgp.NewUpdateDecoder[*c05Ctx](
		corebgp.NewWithdrawnAddPathRoutesDecodeFn[*c05Ctx](func(*c05Ctx, []corebgp.AddPathPrefix) error { return nil }),
		c05Attr,
		corebgp.NewNLRIAddPathDecodeFn[*c05Ctx](func(*c05Ctx, []corebgp.AddPathPrefix) error { return nil })),
}

type c05Dec struct {
	B     hx.Hex `json:"b,omitempty"`
	Giant *struct {
		Total int    `json:"total"`
		WRL   uint16 `json:"wrl"`
		PAL   uint16 `json:"pal"`
	} `json:"giant,omitempty"`
}

func c05DecProp(c c05Dec) hx.Verdict {
	b := []byte(c.B)
	v := hx.Verdict{}
	if c.Giant != nil {
		b = giantUpdate(c.Giant.Total, c.Giant.WRL, c.Giant.PAL)
		v.NT = fmt.Sprintf("giant/%d/%d/%d", c.Giant.Total, c.Giant.WRL, c.Giant.PAL)
		v.Class = "giant"
	} else {
		p := wire.PartitionUpdate(b)
		v.Class = c16Class(p)
		if p.Abort == "" {
			v.NT = h64(b)
		}
	}
	// any panic is caught by the harness (hx.safeProp) and reported with key "panic"
	for i, d := range c05Decoders {
		err := d.Decode(&c05Ctx{addPath: i == 1}, append([]byte(nil), b...))
		n := corebgp.UpdateNotificationFromErr(err)
		if (err == nil) != (n == nil) {
			v.Dev = hx.Devf("notif-from-err", "Decode err=%v but UpdateNotificationFromErr=%v", err, n)
		}
	}
	// the same bytes through every other exported entry point
	if len(b) <= 8192 {
		for _, r := range wire.AttrRules {
			for _, fl := range []uint8{0x40, 0x80, 0xC0, 0x00, 0x50, 0x90} {
				c18Decode(r.Code, fl, b)
			}
		}
		corebgp.DecodeAddPathTuples(append([]byte(nil), b...))
		var tup corebgp.AddPathTuple
		tup.Decode(append([]byte(nil), b...))
		corebgp.DecodeMPReachIPv6NextHops(b)
		corebgp.DecodeMPIPv6Prefixes(b)
		corebgp.DecodeMPIPv6AddPathPrefixes(b)
		for _, fl := range []uint8{0x80, 0x90, 0x40} {
			c05Reach(&c05Ctx{}, corebgp.PathAttrFlags(fl), b)
			c05Unreach(&c05Ctx{addPath: true}, corebgp.PathAttrFlags(fl), b)
		}
		corebgp.VerifDecodeOpen(b)
		corebgp.VerifDecodeNotification(b)
		for ty := 0; ty < 6; ty++ {
			corebgp.VerifMessageFromBytes(b, uint8(ty))
		}
	}
	return v
}

// ---- (c) API call sequences from several goroutines around live sessions

type c05APIOp struct {
	G   int    `json:"g"`
	Op  string `json:"op"` // add del get list serve close connect handshake
	Key int    `json:"key"`
	// WrongDst: the inbound connection is made to an address other than the local
	// address the peer is configured with (peers with Key%4 == 1 have one)
	WrongDst bool `json:"wrong_dst,omitempty"`
}

type c05API struct {
	Gs  int        `json:"gs"`
	Ops []c05APIOp `json:"ops"`
	// Listeners: Serve is given that many more (idle) listeners
	Listeners int `json:"listeners,omitempty"`
}

func c05APIProp(t *testing.T, r *hx.Run) func(c c05API) hx.Verdict {
	return func(c c05API) hx.Verdict {
		r.SetCurrent("api_sequences", c)
		hasServe, mutWhileServing := false, false
		for _, op := range c.Ops {
			if op.Op == "serve" {
				hasServe = true
			} else if hasServe && (op.Op == "add" || op.Op == "del") {
				mutWhileServing = true
			}
		}
		v := hx.Verdict{Class: fmt.Sprintf("gs=%d/serve=%v/mutation-while-serving=%v", c.Gs, hasServe, mutWhileServing)}
		if hasServe && mutWhileServing {
			v.NT = fmt.Sprintf("%+v", c)
		}
		var dev *hx.Dev
		fail := func(key, f string, x ...any) {
			if dev == nil {
				dev = hx.Devf(key, f, x...)
			}
		}
		o := world.Run(t, func() {
			w, err := world.New("10.0.0.1", nil)
			if err != nil {
				fail("setup", "%v", err)
				return
			}
			spec := func(k int) world.PeerSpec {
				sp := world.PeerSpec{Remote: c20Keys[k%len(c20Keys)], LocalAS: 64512, RemoteAS: 64999, Hold: 90, Passive: k%2 == 0, IdleHoldMs: 1000}
				if k%4 == 1 {
					sp.Local = "10.0.1.1"
					if !sp.RemoteAddr().Is4() {
						sp.Local = "2001:db8:1::1"
					}
				}
				return sp
			}
			var serveOnce sync.Once
			var mu sync.Mutex
			served := false
			per := map[int][]c05APIOp{}
			for _, op := range c.Ops {
				per[op.G%max(c.Gs, 1)] = append(per[op.G%max(c.Gs, 1)], op)
			}
			var wg sync.WaitGroup
			for g := 0; g < max(c.Gs, 1); g++ {
				wg.Add(1)
				go func(g int) {
					defer wg.Done()
					for _, op := range per[g] {
						sp := spec(op.Key)
						switch op.Op {
						case "add":
							w.AddPeer(sp)
						case "del":
							w.Srv.DeletePeer(sp.RemoteAddr())
						case "get":
							w.Srv.GetPeer(sp.RemoteAddr())
						case "list":
							w.Srv.ListPeers()
						case "serve":
							serveOnce.Do(func() {
								mu.Lock()
								served = true
								mu.Unlock()
								w.ExtraListeners(c.Listeners)
								w.Serve()
							})
						case "close":
							w.Srv.Close()
						case "connect", "handshake":
							mu.Lock()
							ok := served
							mu.Unlock()
							if !ok {
								continue
							}
							dst := "10.0.0.1"
							if !sp.RemoteAddr().Is4() {
								dst = "2001:db8::1"
							}
							if sp.Local != "" && !op.WrongDst {
								dst = sp.Local
							}
							cn := w.Inbound(sp.Remote, dst)
							if op.Op == "handshake" {
								cn.RemoteSend(world.RemoteOpen(sp, cn, 90, 0x0a000063).Frame(), nil)
								cn.RemoteSend(wire.Keepalive(), nil)
							}
						}
					}
				}(g)
			}
			done := make(chan struct{})
			go func() { wg.Wait(); close(done) }()
			tm := time.NewTimer(60 * time.Second)
			select {
			case <-done:
				tm.Stop()
			case <-tm.C:
				fail("api-call-blocked", "API calls issued from %d goroutines did not all return within 60 virtual seconds", c.Gs)
				dev.Msg += "\n" + w.Dump()
				return
			}
			w.Advance(3 * time.Second)
			ok, took := w.Call("Close", "", 5*time.Second, w.Srv.Close)
			if !ok {
				fail("close-blocked", "Server.Close did not return within %v after the call sequence", took)
				dev.Msg += "\n" + w.Dump()
				return
			}
			w.Finish()
		})
		if bad := o.Bad(); bad != "" {
			fail("wedge", "%s", bad)
		}
		v.Dev = dev
		return v
	}
}

func genC05API(rt *rapid.T) c05API {
	c := c05API{Gs: rapid.IntRange(1, 4).Draw(rt, "gs"), Listeners: pick(rt, "listeners", 0, 0, 1, 2)}
	n := rapid.IntRange(2, 30).Draw(rt, "nops")
	closed := false
	for i := 0; i < n; i++ {
		op := c05APIOp{G: rapid.IntRange(0, c.Gs-1).Draw(rt, "g"), Key: rapid.IntRange(0, 3).Draw(rt, "key"),
			Op: pick(rt, "op", "add", "add", "del", "get", "list", "serve", "connect", "handshake", "handshake", "close")}
		if op.Op == "connect" || op.Op == "handshake" {
			op.WrongDst = rapid.IntRange(0, 2).Draw(rt, "wrongdst") == 0
		}
		if op.Op == "close" {
			if rapid.IntRange(0, 2).Draw(rt, "really") != 0 {
				op.Op = "list"
			} else {
				closed = true
			}
		}
		_ = closed
		c.Ops = append(c.Ops, op)
	}
	return c
}

func TestC05(t *testing.T) {
	r := hx.Start(t, "C05")
	defer r.Finish(t)

	hx.Rapid(r, t, "streams_in_every_state", r.N(3000, 40000), genC05Stream, c05StreamProp(t, r))

	gc := giantCases()
	hx.Enum(r, t, "decoders_giant_buffers", int64(len(gc)), iter.Seq[c05Dec](func(yield func(c05Dec) bool) {
		for _, c := range gc {
			if !yield(c05Dec{Giant: c.Giant}) {
				return
			}
		}
	}), c05DecProp)
	hx.Rapid(r, t, "decoders_generated", r.N(30000, 300000), func(rt *rapid.T) c05Dec {
		switch rapid.IntRange(0, 5).Draw(rt, "kind") {
		case 0:
			return c05Dec{B: genBytes(rt, "raw", 64)}
		case 1:
			v := genAttrValue(rt, pick[uint8](rt, "t", 1, 2, 7, 8, 14, 15, 32))
			return c05Dec{B: v}
		}
		b, _ := genUpdateBody(rt)
		return c05Dec{B: b}
	}, c05DecProp)

	hx.Rapid(r, t, "api_sequences", r.N(1500, 20000), genC05API, c05APIProp(t, r))
	hx.Rapid(r, t, "dial_retry_storm", r.N(60, 1500), genC05Storm, c05StormProp(t, r, "dial_retry_storm"))
	// a stop that lands in the write of a timer-driven KEEPALIVE / Hold Timer Expired (shared with C10)
	// two connections of one peer and every arrival order of their OPENs and KEEPALIVEs (C07's
	// scripts): whatever the outcome, nothing wedges
	hx.Enum(r, t, "collision_orders", 0, iter.Seq[c07Case](func(yield func(c07Case) bool) {
		for _, ord := range c07Orders() {
			for _, cfg := range c07Cfgs[:4] {
				if !yield(c07Case{LocalID: cfg.lid, RemoteID: cfg.rid, LocalAS: cfg.las, RemoteAS: cfg.ras, Bursts: ord}) {
					return
				}
			}
		}
	}), c07Prop(t, r, "collision_orders"))
	hx.Enum(r, t, "stop_when_session_timer_is_due", 0, func(yield func(c10TimerDue) bool) {
		for _, timer := range []string{"keepalive", "hold"} {
			for _, api := range []string{"close", "del"} {
				for _, after := range []int64{0, 10, 40, 120} {
					if !yield(c10TimerDue{Timer: timer, API: api, Out: after%20 == 0, SpinUs: 200, AfterUs: after, RHold: 3}) {
						return
					}
				}
			}
		}
	}, c10TimerDueProp(t, r, "stop_when_session_timer_is_due"))
}

func FuzzC05Decoders(f *testing.F) {
	f.Add([]byte{0, 0, 0, 0})
	f.Add([]byte{0x00, 0x03, 0x10, 0x0a, 0x00, 0x00, 0x1b, 0x40, 0x01, 0x01, 0x01, 0x40, 0x02, 0x06, 0x02, 0x01, 0x00, 0x00, 0xfd, 0xea, 0x40, 0x03, 0x04, 0xc0, 0x00, 0x02, 0x02, 0xc0, 0x08, 0x04, 0xfd, 0xea, 0xff, 0xff, 0x18, 0xc0, 0x00, 0x02})
	f.Add([]byte{0x00, 0x00, 0x00, 0x3f, 0x90, 0x0e, 0x00, 0x2e, 0x00, 0x02, 0x01, 0x20, 0x20, 0x01, 0x0d, 0xb8, 0, 0, 0, 0, 0, 0, 0, 0, 0, 0, 0, 0x02, 0xfe, 0x80, 0, 0, 0, 0, 0, 0, 0, 0x42, 0xc0, 0xff, 0xfe, 0, 0x02, 0x02, 0x00, 0x40, 0x20, 0x01, 0x0d, 0xb8, 0, 0, 0, 0, 0x40, 0x01, 0x01, 0x01, 0x40, 0x02, 0x06, 0x02, 0x01, 0x00, 0x00, 0xfd, 0xea})
	f.Add([]byte{0, 0, 0, 7, 0x80, 14, 4, 0, 2, 1, 255})
	f.Add([]byte{0xff, 0xfe, 0, 0})
	f.Fuzz(func(t *testing.T, b []byte) {
		defer func() {
			if p := recover(); p != nil {
				t.Fatalf("panic: %v", p)
			}
		}()
		v := c05DecProp(c05Dec{B: b})
		if v.Dev != nil {
			t.Fatalf("key=%s %s", v.Dev.Key, v.Dev.Msg)
		}
	})
}

// ---- (d) dial retry storms: thousands of connect-retry expiries, refusals and
// stalled dials per case (virtual time makes them free). Every expiry with a
// pending dial result is a chance for a mishandled dial goroutine / channel to
// crash the process; under the race detector (C10's race tier runs this too)
// unsynchronised accesses between the FSM and its dial goroutines are reported.

type c05Storm struct {
	IdleMs  int      `json:"idle_ms"`
	RetryMs int      `json:"retry_ms"`
	Plans   []string `json:"plans"` // cycled: stall, refuse, tie (refused exactly at the retry expiry), late (just before it)
	Secs    int      `json:"secs"`
}

func c05StormProp(t *testing.T, r *hx.Run, sub string) func(c c05Storm) hx.Verdict {
	return func(c c05Storm) hx.Verdict {
		r.SetCurrent(sub, c)
		v := hx.Verdict{Class: fmt.Sprintf("plans=%d", len(c.Plans)), NT: fmt.Sprintf("%+v", c)}
		a := world.PeerSpec{Remote: "10.0.0.2", LocalAS: 64512, RemoteAS: 64513, Hold: 90, IdleHoldMs: c.IdleMs, ConnRetryMs: c.RetryMs}
		b := world.PeerSpec{Remote: "10.0.0.9", LocalAS: 64512, RemoteAS: 64999, Passive: true, Hold: 90}
		var dev *hx.Dev
		fail := func(key, f string, x ...any) {
			if dev == nil {
				dev = hx.Devf(key, f, x...)
			}
		}
		o := world.Run(t, func() {
			w, err := world.New("10.0.0.1", nil)
			if err != nil {
				fail("setup", "%v", err)
				return
			}
			retry := time.Duration(c.RetryMs) * time.Millisecond
			var plans []memnet.DialPlan
			for i := 0; i < 64; i++ {
				switch c.Plans[i%len(c.Plans)] {
				case "stall":
					plans = append(plans, memnet.DialPlan{Kind: memnet.Stall})
				case "tie":
					plans = append(plans, memnet.DialPlan{Kind: memnet.Refuse, Delay: retry})
				case "late":
					plans = append(plans, memnet.DialPlan{Kind: memnet.Refuse, Delay: retry - time.Nanosecond})
				default:
					plans = append(plans, memnet.DialPlan{Kind: memnet.Refuse})
				}
			}
			w.Net.SetPlans(a.RemoteAddr(), plans...)
			if err := w.AddPeer(a); err != nil {
				fail("setup", "%v", err)
				return
			}
			if err := w.AddPeer(b); err != nil {
				fail("setup", "%v", err)
				return
			}
			w.Serve()
			w.Settle()
			for s := 0; s < c.Secs; s++ {
				w.Advance(time.Second)
				if s%8 == 7 {
					// keep the plan queue from running into its sticky tail too early
					w.Net.SetPlans(a.RemoteAddr(), plans...)
				}
			}
			if n := len(w.Net.Dials()); n < c.Secs*1000/(c.IdleMs+c.RetryMs+1)/4 {
				fail("stopped-dialling", "only %d dial attempts in %d s (idle-hold %d ms, connect-retry %d ms)", n, c.Secs, c.IdleMs, c.RetryMs)
			}
			cb := w.Inbound(b.Remote, "10.0.0.1")
			w.Settle()
			for _, m := range handshakeBytes(b, cb, stEstablished, 90) {
				cb.RemoteSend(m, nil)
				w.Settle()
			}
			if w.Sessions(b.Remote) != 1 {
				fail("other-peer-not-served", "after the retry storm the other peer cannot establish")
			}
			if ok, took := w.Call("Close", "", 5*time.Second, w.Srv.Close); !ok {
				fail("close-blocked", "Server.Close did not return within %v after the retry storm", took)
				return
			}
			w.Finish()
		})
		if bad := o.Bad(); bad != "" {
			fail("wedge", "%s", bad)
		}
		v.Dev = dev
		return v
	}
}

func genC05Storm(rt *rapid.T) c05Storm {
	c := c05Storm{IdleMs: pick(rt, "idle", 1, 5, 20, 50), RetryMs: pick(rt, "retry", 5, 10, 50), Secs: pick(rt, "secs", 20, 60, 120)}
	for i, n := 0, rapid.IntRange(1, 5).Draw(rt, "nplans"); i < n; i++ {
		c.Plans = append(c.Plans, pick(rt, "plan", "stall", "stall", "tie", "late", "refuse"))
	}
	return c
}
