package props

import (
	"bytes"
	"encoding/binary"
	"fmt"
	"iter"
	"sync"
	"testing"

	"github.com/jwhited/corebgp"
	"pgregory.net/rapid"

	"verif/sim/hx"
	"verif/sim/wire"
)

// C15 - OPEN / NOTIFICATION / capability codecs round-trip and are strict.

type c15Notif struct {
	Code uint8  `json:"code"`
	Sub  uint8  `json:"sub"`
	Data hx.Hex `json:"data"`
}

func c15NotifProp(c c15Notif) hx.Verdict {
	v := hx.Verdict{Class: fmt.Sprintf("len%s", lenClass(len(c.Data)))}
	if len(c.Data) >= 1 {
		v.NT = fmt.Sprintf("%d/%d/%s", c.Code, c.Sub, h64(c.Data))
	}
	n := &corebgp.Notification{Code: c.Code, Subcode: c.Sub, Data: append([]byte(nil), c.Data...)}
	enc, err := corebgp.VerifEncodeNotification(n)
	if err != nil {
		v.Dev = hx.Devf("notif-encode-error", "encode(%d,%d,len %d) failed: %v", c.Code, c.Sub, len(c.Data), err)
		return v
	}
	// the encoding must be exactly one well-formed NOTIFICATION frame ...
	msgs, perr := wire.ParseStream(enc)
	if perr != nil || len(msgs) != 1 || msgs[0].Type != wire.TypeNotification {
		v.Dev = hx.Devf("notif-encode-malformed", "encode(%d,%d,len %d) is not one NOTIFICATION frame: %v (%x)", c.Code, c.Sub, len(c.Data), perr, clip(enc))
		return v
	}
	// ... carrying exactly code, subcode, data (independent parse)
	ref, _ := wire.ParseNotif(msgs[0].Body)
	if ref.Code != c.Code || ref.Sub != c.Sub || !bytes.Equal(ref.Data, c.Data) {
		key := "notif-encode-wrong"
		if len(c.Data) == 1 && len(ref.Data) == 0 && ref.Code == c.Code && ref.Sub == c.Sub {
			key = "notif-1-byte-data-dropped"
		}
		v.Dev = hx.Devf(key, "encode(%d,%d,data %x) put (%d,%d,data %x) on the wire", c.Code, c.Sub, clip(c.Data), ref.Code, ref.Sub, clip(ref.Data))
		return v
	}
	// decode(encode(x)) == x, through the decoder and through messageFromBytes
	dec, err := corebgp.VerifDecodeNotification(msgs[0].Body)
	if err != nil || dec == nil {
		v.Dev = hx.Devf("notif-decode-reject", "decode(encode(x)) failed: %v", err)
		return v
	}
	if dec.Code != c.Code || dec.Subcode != c.Sub || !bytes.Equal(dec.Data, c.Data) {
		v.Dev = hx.Devf("notif-roundtrip", "decode(encode(%d,%d,%x)) = (%d,%d,%x)", c.Code, c.Sub, clip(c.Data), dec.Code, dec.Subcode, clip(dec.Data))
		return v
	}
	m, err := corebgp.VerifMessageFromBytes(msgs[0].Body, wire.TypeNotification)
	if err != nil || m.Nil || m.Notification == nil || m.Notification.Code != c.Code || m.Notification.Subcode != c.Sub || !bytes.Equal(m.Notification.Data, c.Data) {
		v.Dev = hx.Devf("notif-roundtrip-mfb", "messageFromBytes(encode(x)) != x (err %v)", err)
		return v
	}
	return v
}

func lenClass(n int) string {
	switch {
	case n == 0:
		return "0"
	case n == 1:
		return "1"
	case n == 2:
		return "2"
	case n < 256:
		return "3-255"
	case n < 4075:
		return "256-4074"
	default:
		return ">=4075"
	}
}

func clip(b []byte) []byte {
	if len(b) > 48 {
		return b[:48]
	}
	return b
}

// c15Bytes is a byte string offered to a decoder.
type c15Bytes struct {
	B    hx.Hex `json:"b"`
	Muts int    `json:"muts"` // number of mutations from a valid encoding, -1 = random string
}

func c15NotifBytesProp(c c15Bytes) hx.Verdict {
	v := hx.Verdict{Class: fmt.Sprintf("accept=%v", len(c.B) >= 2)}
	if c.Muts >= 0 && c.Muts <= 1 || len(c.B) <= 3 {
		v.NT = h64(c.B)
	}
	dec, err := corebgp.VerifDecodeNotification(c.B)
	m, merr := corebgp.VerifMessageFromBytes(c.B, wire.TypeNotification)
	if (err == nil) != (merr == nil) {
		v.Dev = hx.Devf("notif-decode-inconsistent", "decode err=%v but messageFromBytes err=%v", err, merr)
		return v
	}
	if len(c.B) < 2 {
		// lacks the fixed fields: must be rejected with a nil message
		if err == nil {
			v.Dev = hx.Devf("notif-decode-accepts-short", "decoder accepted a %d-byte NOTIFICATION body", len(c.B))
		} else if !m.Nil {
			v.Dev = hx.Devf("notif-decode-partial", "messageFromBytes returned an error and a non-nil message")
		}
		return v
	}
	if err != nil {
		// every body with the two fixed octets is a NOTIFICATION (RFC 4271 4.5);
		// rejecting one breaks decode(encode(x)) for the x it encodes
		v.Dev = hx.Devf("notif-decode-reject", "decoder rejected the well-formed body %x: %v", clip(c.B), err)
		return v
	}
	// re-encoding reproduces the byte string
	enc, eerr := corebgp.VerifEncodeNotification(dec)
	want := wire.Frame(wire.TypeNotification, c.B)
	if eerr != nil || !bytes.Equal(enc, want) {
		key := "notif-reencode"
		if len(c.B) == 3 && len(enc) == len(want)-1 {
			key = "notif-1-byte-data-dropped"
		}
		v.Dev = hx.Devf(key, "encode(decode(%x)) = %x (err %v)", clip(c.B), clip(enc), eerr)
	}
	return v
}

// ---- OPEN

type c15Open struct {
	Open wire.Open `json:"open"`
}

func capsToCore(cs []wire.Cap) []corebgp.Capability {
	out := make([]corebgp.Capability, 0, len(cs))
	for _, c := range cs {
		out = append(out, corebgp.Capability{Code: c.Code, Value: append([]byte(nil), c.Value...)})
	}
	return out
}

func toVerifOpen(o wire.Open) *corebgp.VerifOpen {
	v := &corebgp.VerifOpen{Version: o.Version, ASN: o.AS2, HoldTime: o.Hold, BGPID: o.ID}
	for _, p := range o.Params {
		v.Params = append(v.Params, capsToCore(p.Caps))
	}
	return v
}

// sameOpen compares corebgp's decoded OPEN with the reference value
// (nil and empty capability values are identified).
func sameOpen(v *corebgp.VerifOpen, o wire.Open) string {
	if v.Version != o.Version || v.ASN != o.AS2 || v.HoldTime != o.Hold || v.BGPID != o.ID {
		return fmt.Sprintf("fixed fields differ: got (%d,%d,%d,%#x) want (%d,%d,%d,%#x)", v.Version, v.ASN, v.HoldTime, v.BGPID, o.Version, o.AS2, o.Hold, o.ID)
	}
	if len(v.Params) != len(o.Params) {
		return fmt.Sprintf("%d parameters, want %d", len(v.Params), len(o.Params))
	}
	for i := range v.Params {
		if len(v.Params[i]) != len(o.Params[i].Caps) {
			return fmt.Sprintf("parameter %d: %d capabilities, want %d", i, len(v.Params[i]), len(o.Params[i].Caps))
		}
		for j, c := range v.Params[i] {
			w := o.Params[i].Caps[j]
			if c.Code != w.Code || !bytes.Equal(c.Value, w.Value) {
				return fmt.Sprintf("parameter %d capability %d: got (%d,%x) want (%d,%x)", i, j, c.Code, clip(c.Value), w.Code, clip(w.Value))
			}
		}
	}
	return ""
}

func openShape(o wire.Open) string {
	s := ""
	for _, p := range o.Params {
		s += fmt.Sprintf("p%d[", p.Type)
		for _, c := range p.Caps {
			s += fmt.Sprintf("%d:%d,", c.Code, len(c.Value))
		}
		s += "]"
	}
	return s
}

func c15OpenProp(c c15Open) hx.Verdict {
	o := c.Open
	ncaps := len(o.AllCaps())
	v := hx.Verdict{Class: fmt.Sprintf("params=%d", len(o.Params))}
	if ncaps >= 2 {
		v.NT = h64(o.Body())
	}
	enc, err := corebgp.VerifEncodeOpen(toVerifOpen(o))
	if err != nil {
		v.Dev = hx.Devf("open-encode-error", "encode of a representable OPEN failed: %v", err)
		return v
	}
	want := o.Frame()
	if !bytes.Equal(enc, want) {
		v.Dev = hx.Devf("open-encode-wrong", "encode(x) = %x, reference encoding %x", clip(enc), clip(want))
		return v
	}
	dec, err := corebgp.VerifDecodeOpen(enc[wire.HeaderLen:])
	if err != nil || dec == nil {
		v.Dev = hx.Devf("open-decode-reject", "decode(encode(x)) failed: %v", err)
		return v
	}
	if d := sameOpen(dec, o); d != "" {
		v.Dev = hx.Devf("open-roundtrip", "decode(encode(x)) != x: %s", d)
		return v
	}
	m, err := corebgp.VerifMessageFromBytes(enc[wire.HeaderLen:], wire.TypeOpen)
	if err != nil || m.Nil || m.Open == nil || sameOpen(m.Open, o) != "" {
		v.Dev = hx.Devf("open-roundtrip-mfb", "messageFromBytes(encode(x)) != x (err %v)", err)
	}
	return v
}

func c15OpenBytesProp(c c15Bytes) hx.Verdict {
	ref, rerr := wire.ParseOpenStrict(c.B)
	v := hx.Verdict{Class: fmt.Sprintf("strict=%v", rerr == nil)}
	if c.Muts >= 0 && c.Muts <= 1 {
		v.NT = h64(c.B)
	}
	dec, err := corebgp.VerifDecodeOpen(c.B)
	m, merr := corebgp.VerifMessageFromBytes(c.B, wire.TypeOpen)
	if (err == nil) != (merr == nil) {
		v.Dev = hx.Devf("open-decode-inconsistent", "decode err=%v but messageFromBytes err=%v", err, merr)
		return v
	}
	if err != nil {
		if !m.Nil {
			v.Dev = hx.Devf("open-decode-partial", "messageFromBytes returned an error and a non-nil message")
		}
		return v
	}
	v.Class += ",accepted"
	// accepted: the strict reference parser must accept it too ...
	if rerr != nil {
		v.Dev = hx.Devf("open-decode-accepts-malformed", "decoder accepted %x but: %v", clip(c.B), rerr)
		return v
	}
	for _, p := range ref.Params {
		if p.Type != 2 {
			v.Dev = hx.Devf("open-decode-accepts-unknown-param", "decoder accepted an OPEN with optional parameter type %d", p.Type)
			return v
		}
	}
	// ... the decoded value must be what the bytes say ...
	if d := sameOpen(dec, ref); d != "" {
		v.Dev = hx.Devf("open-decode-wrong", "decode(%x): %s", clip(c.B), d)
		return v
	}
	// ... and re-encoding must reproduce the byte string
	enc, eerr := corebgp.VerifEncodeOpen(dec)
	if eerr != nil || !bytes.Equal(enc, wire.Frame(wire.TypeOpen, c.B)) {
		v.Dev = hx.Devf("open-reencode", "encode(decode(s)) != s for s=%x: got %x (err %v)", clip(c.B), clip(enc), eerr)
	}
	return v
}

func genOpenBytes(rt *rapid.T) c15Bytes {
	if rapid.IntRange(0, 9).Draw(rt, "random") == 0 {
		return c15Bytes{B: genBytes(rt, "raw", 300), Muts: -1}
	}
	if rapid.IntRange(0, 3).Draw(rt, "grammar") == 0 {
		// the structural fault grammar of C02 (empty / trailing / split capability
		// parameters, stray octets, inconsistent length octets, ...), which byte-level
		// mutation of a valid encoding reaches only rarely
		return c15Bytes{B: genC02(rt).Body, Muts: 1}
	}
	o := genOpenValue(rt)
	b, n := mutateBytes(rt, o.Body())
	return c15Bytes{B: b, Muts: n}
}

// ---- add-path, MP capability

type c15AddPath struct {
	B hx.Hex `json:"b"`
}

func c15AddPathProp(c c15AddPath) hx.Verdict {
	b := []byte(c.B)
	// reference (RFC 7911 section 4): a positive number of 4-octet tuples
	// AFI(2) SAFI(1) Send/Receive(1) with Send/Receive in 1..3
	valid := len(b) > 0 && len(b)%4 == 0
	type tup struct {
		afi    uint16
		safi   uint8
		tx, rx bool
	}
	var want []tup
	if valid {
		for i := 0; i < len(b); i += 4 {
			sr := b[i+3]
			if sr < 1 || sr > 3 {
				valid = false
				break
			}
			want = append(want, tup{binary.BigEndian.Uint16(b[i:]), b[i+2], sr&2 != 0, sr&1 != 0})
		}
	}
	v := hx.Verdict{Class: fmt.Sprintf("valid=%v", valid)}
	if len(b) >= 4 {
		v.NT = h64(b)
	}
	got, err := corebgp.DecodeAddPathTuples(append([]byte(nil), b...))
	if !valid {
		if err == nil {
			v.Dev = hx.Devf("addpath-accepts-invalid", "DecodeAddPathTuples accepted %x", clip(b))
		} else if got != nil {
			v.Dev = hx.Devf("addpath-partial", "DecodeAddPathTuples returned an error and %d tuples", len(got))
		}
		return v
	}
	if err != nil {
		v.Dev = hx.Devf("addpath-rejects-valid", "DecodeAddPathTuples rejected %x: %v", clip(b), err)
		return v
	}
	if len(got) != len(want) {
		v.Dev = hx.Devf("addpath-wrong", "decoded %d tuples, want %d", len(got), len(want))
		return v
	}
	for i, g := range got {
		w := want[i]
		if g.AFI != w.afi || g.SAFI != w.safi || g.Tx != w.tx || g.Rx != w.rx {
			v.Dev = hx.Devf("addpath-wrong", "tuple %d: got %+v want %+v", i, g, w)
			return v
		}
	}
	// round trip through the capability constructor
	capab := corebgp.NewAddPathCapability(got)
	if capab.Code != 69 || !bytes.Equal(capab.Value, b) {
		v.Dev = hx.Devf("addpath-reencode", "NewAddPathCapability(decode(%x)) = code %d value %x", clip(b), capab.Code, clip(capab.Value))
	}
	return v
}

type c15MP struct {
	AFI  uint16 `json:"afi"`
	SAFI uint8  `json:"safi"`
}

func c15MPProp(c c15MP) hx.Verdict {
	v := hx.Verdict{NT: fmt.Sprintf("%d/%d", c.AFI, c.SAFI)}
	got := corebgp.NewMPExtensionsCapability(c.AFI, c.SAFI)
	want := []byte{byte(c.AFI >> 8), byte(c.AFI), 0, c.SAFI}
	if got.Code != 1 || !bytes.Equal(got.Value, want) {
		v.Dev = hx.Devf("mpcap-wrong", "NewMPExtensionsCapability(%d,%d) = code %d value %x, want code 1 value %x", c.AFI, c.SAFI, got.Code, got.Value, want)
	}
	return v
}

// c15Conc: several values are encoded and decoded at the same time, each by a goroutine
// of its own, over and over (corebgp itself does that: one FSM goroutine per connection).
// Every single round trip must come out as it does alone.
type c15Conc struct {
	Notifs []c15Notif `json:"notifs,omitempty"`
	Opens  []c15Open  `json:"opens,omitempty"`
	Reps   int        `json:"reps"`
}

func c15ConcProp(c c15Conc) hx.Verdict {
	v := hx.Verdict{Class: fmt.Sprintf("notifs=%d/opens=%d", len(c.Notifs), len(c.Opens))}
	if len(c.Notifs)+len(c.Opens) >= 2 {
		sig := ""
		for _, n := range c.Notifs {
			sig += fmt.Sprintf("n%d.%d.%d,", n.Code, n.Sub, len(n.Data))
		}
		for _, o := range c.Opens {
			sig += "o" + h64(o.Open.Body()) + ","
		}
		v.NT = sig
	}
	devs := make([]*hx.Dev, len(c.Notifs)+len(c.Opens))
	var wg sync.WaitGroup
	run := func(i int, one func() *hx.Dev) {
		wg.Add(1)
		go func() {
			defer wg.Done()
			for k := 0; k < c.Reps; k++ {
				if d := one(); d != nil {
					devs[i] = d
					return
				}
			}
		}()
	}
	for i, n := range c.Notifs {
		run(i, func() *hx.Dev { return c15NotifProp(n).Dev })
	}
	for i, o := range c.Opens {
		run(len(c.Notifs)+i, func() *hx.Dev { return c15OpenProp(o).Dev })
	}
	wg.Wait()
	for _, d := range devs {
		if d != nil {
			d.Msg = fmt.Sprintf("with %d values going through the codecs concurrently: %s", len(devs), d.Msg)
			v.Dev = d
			break
		}
	}
	return v
}

func TestC15(t *testing.T) {
	r := hx.Start(t, "C15")
	defer r.Finish(t)

	// every data length that fits a message, deterministic content
	hx.Enum(r, t, "notif_every_length", 4076, iter.Seq[c15Notif](func(yield func(c15Notif) bool) {
		for n := 0; n <= wire.MaxBody-2; n++ {
			d := detBytes(n, uint32(r.Seed))
			if !yield(c15Notif{Code: uint8(1 + n%7), Sub: uint8(n % 12), Data: d}) {
				return
			}
		}
	}), c15NotifProp)

	// every (code, subcode) for data lengths 0..2
	hx.Enum(r, t, "notif_every_code", 256*256*3, iter.Seq[c15Notif](func(yield func(c15Notif) bool) {
		for code := 0; code < 256; code++ {
			for sub := 0; sub < 256; sub++ {
				for n := 0; n <= 2; n++ {
					if !yield(c15Notif{Code: uint8(code), Sub: uint8(sub), Data: detBytes(n, uint32(code*256+sub))}) {
						return
					}
				}
			}
		}
	}), c15NotifProp)

	hx.Rapid(r, t, "notif_values", r.N(20000, 200000), func(rt *rapid.T) c15Notif {
		n := pick(rt, "len", 0, 1, 1, 2, 3, 255, 256, 4074, 4075, rapid.IntRange(0, 4075).Draw(rt, "lenr"))
		return c15Notif{Code: rapid.Byte().Draw(rt, "code"), Sub: rapid.Byte().Draw(rt, "sub"), Data: genBytesN(rt, "data", n)}
	}, c15NotifProp)

	hx.Rapid(r, t, "notif_bytes", r.N(20000, 200000), func(rt *rapid.T) c15Bytes {
		if rapid.Bool().Draw(rt, "random") {
			n := pick(rt, "len", 0, 1, 2, 3, 4, rapid.IntRange(0, 300).Draw(rt, "lenr"), rapid.IntRange(0, 4077).Draw(rt, "lenR"))
			return c15Bytes{B: genBytesN(rt, "raw", n), Muts: -1}
		}
		base := wire.Notif{Code: rapid.Byte().Draw(rt, "code"), Sub: rapid.Byte().Draw(rt, "sub"), Data: genBytes(rt, "data", 8)}.Body()
		b, n := mutateBytes(rt, base)
		return c15Bytes{B: b, Muts: n}
	}, c15NotifBytesProp)

	hx.Rapid(r, t, "open_values", r.N(20000, 200000), func(rt *rapid.T) c15Open {
		return c15Open{Open: genOpenValue(rt)}
	}, c15OpenProp)

	hx.Rapid(r, t, "open_bytes", r.N(40000, 400000), genOpenBytes, c15OpenBytesProp)

	hx.Rapid(r, t, "concurrent_codecs", r.N(300, 3000), func(rt *rapid.T) c15Conc {
		c := c15Conc{Reps: 60}
		for i, n := 0, rapid.IntRange(1, 4).Draw(rt, "nnotifs"); i < n; i++ {
			l := pick(rt, "len", 0, 1, 2, 21, 255, rapid.IntRange(0, 600).Draw(rt, "lenr"))
			c.Notifs = append(c.Notifs, c15Notif{Code: rapid.Byte().Draw(rt, "code"), Sub: rapid.Byte().Draw(rt, "sub"), Data: genBytesN(rt, "data", l)})
		}
		for i, n := 0, rapid.IntRange(1, 4).Draw(rt, "nopens"); i < n; i++ {
			c.Opens = append(c.Opens, c15Open{Open: genOpenValue(rt)})
		}
		return c
	}, c15ConcProp)

	// add-path: every raw length 0..260 x every Send/Receive octet at one position
	hx.Enum(r, t, "addpath_len_x_octet", 261*256, iter.Seq[c15AddPath](func(yield func(c15AddPath) bool) {
		for n := 0; n <= 260; n++ {
			for sr := 0; sr < 256; sr++ {
				b := detBytes(n, 99)
				for i := 3; i < n; i += 4 {
					b[i] = byte(1 + (i/4)%3) // valid elsewhere
				}
				if n >= 4 {
					pos := 3 + 4*((n/4-1)*sr/256)
					b[pos] = byte(sr)
				}
				if !yield(c15AddPath{B: b}) {
					return
				}
			}
		}
	}), c15AddPathProp)

	hx.Rapid(r, t, "addpath_lists", r.N(20000, 200000), func(rt *rapid.T) c15AddPath {
		n := rapid.IntRange(0, 64).Draw(rt, "ntuples")
		var b []byte
		for i := 0; i < n; i++ {
			afi := pick[uint16](rt, "afi", 1, 2, 25, 0, 0xffff, rapid.Uint16().Draw(rt, "afir"))
			safi := pick[uint8](rt, "safi", 1, 2, 4, 128, 0, 255, rapid.Byte().Draw(rt, "safir"))
			sr := pick[uint8](rt, "sr", 1, 2, 3, 1, 2, 3, 1, 2, 3, 0, 4, 255, rapid.Byte().Draw(rt, "srr"))
			b = append(b, byte(afi>>8), byte(afi), safi, sr)
		}
		if rapid.IntRange(0, 4).Draw(rt, "mutate") == 0 {
			b, _ = mutateBytes(rt, b)
		}
		return c15AddPath{B: b}
	}, c15AddPathProp)

	// multiprotocol capability: AFI boundary values (all 65536 in thorough) x all SAFI
	afis := []int{0, 1, 2, 3, 25, 255, 256, 257, 0x7fff, 0x8000, 0xfffe, 0xffff, 16388, 16389}
	if !r.Quick() {
		afis = afis[:0]
		for a := 0; a < 65536; a++ {
			afis = append(afis, a)
		}
	}
	hx.Enum(r, t, "mpcap_grid", int64(len(afis))*256, iter.Seq[c15MP](func(yield func(c15MP) bool) {
		for _, a := range afis {
			for s := 0; s < 256; s++ {
				if !yield(c15MP{AFI: uint16(a), SAFI: uint8(s)}) {
					return
				}
			}
		}
	}), c15MPProp)
}

// FuzzC15OpenDecode: coverage-guided search with the same oracle.
func FuzzC15OpenDecode(f *testing.F) {
	f.Add(wire.NewOpen(65001, 90, 0x0a000001).Body())
	f.Add(wire.NewOpen(4200000000, 0, 1, wire.Cap{Code: 1, Value: []byte{0, 1, 0, 1}}).Body())
	f.Add([]byte{4, 0, 1, 0, 3, 1, 2, 3, 4, 0})
	f.Add([]byte{4, 0, 1, 0, 3, 1, 2, 3, 4, 2, 2, 0})
	f.Add([]byte{4, 0, 1, 0, 3, 1, 2, 3, 4, 255, 2, 253, 65, 4})
	f.Fuzz(func(t *testing.T, b []byte) {
		if len(b) > wire.MaxBody {
			return
		}
		v := c15OpenBytesProp(c15Bytes{B: b, Muts: -1})
		if v.Dev != nil {
			t.Fatalf("key=%s %s", v.Dev.Key, v.Dev.Msg)
		}
	})
}
