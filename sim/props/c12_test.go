package props

import (
	"fmt"
	"testing"
	"time"

	"pgregory.net/rapid"

	"verif/sim/hx"
	"verif/sim/memnet"
	"verif/sim/wire"
	"verif/sim/world"
)

// C12 - protocol errors damp the peer; Cease and transport faults do not.

type c12Event struct {
	// Kind: recv (remote sends NOTIFICATION Code), marker (bad marker -> corebgp
	// sends code 1), badopen (-> 2), handler (handler returns Code: 3, 7 or 6),
	// silence (-> 4), wrongmsg (-> 5), fin, rst
	Kind string `json:"kind"`
	Code uint8  `json:"code,omitempty"`
	Sub  *uint8 `json:"sub,omitempty"`  // subcode of a received / handler NOTIFICATION (nil: 1 / 2)
	DLen int    `json:"dlen,omitempty"` // data octets of a received NOTIFICATION
	// Partial: fin / rst arrive after that many octets of an incomplete message
	Partial int `json:"partial,omitempty"`
	// Glued (recv): the last handshake message, the NOTIFICATION and the FIN
	// arrive in one piece while a plugin callback keeps the FSM goroutine busy
	Glued bool   `json:"glued,omitempty"`
	State string `json:"state"`
	Out   bool   `json:"out"`
	Both  bool   `json:"both,omitempty"` // the other direction's connection is parked in OpenSent meanwhile
	// WaitMs: earliest time after the previous protocol error at which this
	// event is caused (it happens later if the peer is not reachable before)
	WaitMs int `json:"wait_ms"`
	// Probes: offsets (per mille of the hold-down) at which inbound probes are made
	Probes []int `json:"probes,omitempty"`
}

type c12Case struct {
	Passive bool       `json:"passive"`
	Events  []c12Event `json:"events"`
}

func (e c12Event) damps() bool {
	switch e.Kind {
	case "fin", "rst":
		return false
	case "recv", "handler":
		return e.Code != 6
	}
	return true
}

const (
	c12Min     = 60 * time.Second
	c12Max     = 300 * time.Second
	c12Amnesia = 300 * time.Second
)

func c12Prop(t *testing.T, r *hx.Run, subs ...string) func(c c12Case) hx.Verdict {
	subName := "histories"
	if len(subs) > 0 {
		subName = subs[0]
	}
	return func(c c12Case) hx.Verdict {
		r.SetCurrent(subName, c)
		nd, nn := 0, 0
		sig := ""
		for _, e := range c.Events {
			if e.damps() {
				nd++
			} else {
				nn++
			}
			sub := -1
			if e.Sub != nil {
				sub = int(*e.Sub)
			}
			sig += fmt.Sprintf("%s%d.%d%s%v/%d%v,", e.Kind, e.Code, sub, e.State[:5], e.Out, e.WaitMs/1000, e.Glued)
		}
		v := hx.Verdict{Class: fmt.Sprintf("passive=%v/damping=%d/nondamping=%d", c.Passive, min(nd, 3), min(nn, 2))}
		if nd >= 2 || (nd >= 1 && nn >= 1) {
			v.NT = fmt.Sprintf("%v/%s", c.Passive, sig)
		}
		const idleMs, retryMs = 1000, 2000
		idle, retry := idleMs*time.Millisecond, retryMs*time.Millisecond
		eps := 50 * time.Millisecond
		p := world.PeerSpec{Remote: "10.0.0.2", LocalAS: 64512, RemoteAS: 64513, Passive: c.Passive, Hold: 3, IdleHoldMs: idleMs, ConnRetryMs: retryMs}
		for _, e := range c.Events {
			if e.Glued {
				p.Plugin.SpinUs = map[string]int64{"open": 150, "est": 150}
			}
		}
		var dev *hx.Dev
		fail := func(key, f string, a ...any) {
			if dev == nil {
				dev = hx.Devf(key, f, a...)
			}
		}
		o := world.Run(t, func() {
			w, err := world.New("10.0.0.1", nil)
			if err != nil {
				fail("setup", "%v", err)
				return
			}
			defer func() {
				if dev != nil {
					dev.Msg += "\n" + w.Dump()
				}
				w.Finish()
			}()
			remote := p.RemoteAddr()
			setPlan := func(k memnet.PlanKind) { w.Net.SetPlans(remote, memnet.DialPlan{Kind: k}) }
			setPlan(memnet.Refuse)
			if err := w.AddPeer(p); err != nil {
				fail("setup", "%v", err)
				return
			}
			w.Serve()
			w.Settle()
			now := func() time.Duration { return w.Net.Since() }

			// getConn obtains a connection of the wanted direction in OpenSent,
			// within the normal reconnection bound
			getConn := func(out bool) *memnet.Conn {
				if out {
					setPlan(memnet.Accept)
					n0 := len(w.Net.Dials())
					// an attempt in flight still has the old plan
					if !w.Net.WaitDials(n0+1, idle+retry+eps) {
						return nil
					}
					w.Settle()
					setPlan(memnet.Refuse)
					cn := w.Net.Dials()[n0].Conn
					if cn == nil {
						// that attempt was made under the old plan; take the next one
						setPlan(memnet.Accept)
						if !w.Net.WaitDials(n0+2, idle+retry+eps) {
							return nil
						}
						w.Settle()
						setPlan(memnet.Refuse)
						cn = w.Net.Dials()[n0+1].Conn
					}
					return cn
				}
				cn := w.Inbound(p.Remote, "10.0.0.1")
				w.Settle()
				if len(cn.Snapshot().Bytes()) == 0 {
					return nil
				}
				return cn
			}

			var lastErr time.Duration = -1
			var delay time.Duration
			type window struct{ from, to time.Duration }
			var windows []window
			for ei, e := range c.Events {
				where := fmt.Sprintf("event %d %+v", ei, e)
				out := e.Out && !c.Passive
				if lastErr >= 0 {
					if wait := lastErr + time.Duration(e.WaitMs)*time.Millisecond - now(); wait > 0 {
						w.Advance(wait)
					}
				}
				cn := getConn(out)
				if cn == nil {
					fail("not-retried", "%s: no usable %s connection although the peer is not held down (now %v, last protocol error %v, delay %v)", where, map[bool]string{true: "outbound", false: "inbound"}[out], now(), lastErr, delay)
					return
				}
				var other *memnet.Conn
				if e.Both && !c.Passive {
					other = getConn(!out)
				}
				state := e.State
				hs := handshakeBytes(p, cn, state, 3)
				var glue []byte
				if e.Glued && e.Kind == "recv" && len(hs) > 0 {
					glue, hs = hs[len(hs)-1], hs[:len(hs)-1]
				}
				for _, m := range hs {
					cn.RemoteSend(m, nil)
					w.Settle()
				}
				if glue == nil && state == stEstablished && (cn.Snapshot().LocalClosed || w.Sessions(p.Remote) == 0) {
					fail("setup-state", "%s: could not establish", where)
					return
				}
				if state == stEstablished {
					other = nil // establishing closes the other connection anyway
				}
				// the event
				switch e.Kind {
				case "recv":
					sub := uint8(1)
					if e.Sub != nil {
						sub = *e.Sub
					}
					nf := wire.Notif{Code: e.Code, Sub: sub, Data: detBytes(e.DLen, uint32(e.Code)*256+uint32(sub))}.Frame()
					if e.Glued {
						cn.RemoteSend(append(append([]byte{}, glue...), nf...), nil)
						cn.RemoteClose()
					} else {
						cn.RemoteSend(nf, nil)
					}
				case "marker":
					b := wire.Keepalive()
					b[3] = 0
					cn.RemoteSend(b, nil)
				case "badopen":
					o := world.RemoteOpen(p, cn, 3, 0x0a000002)
					o.Version = 3
					cn.RemoteSend(o.Frame(), nil)
				case "handler":
					hsub := uint8(2)
					if e.Sub != nil {
						hsub = *e.Sub
					}
					cn.RemoteSend(wire.Frame(wire.TypeUpdate, world.MagicUpdate(e.Code, hsub, nil)), nil)
				case "silence":
					w.Advance(3*time.Second + time.Millisecond)
				case "wrongmsg":
					if state == stEstablished {
						cn.RemoteSend(world.RemoteOpen(p, cn, 3, 0x0a000002).Frame(), nil)
					} else {
						cn.RemoteSend(wire.Frame(wire.TypeUpdate, []byte{0, 0, 0, 0}), nil)
					}
				case "fin", "rst":
					if e.Partial > 0 {
						m := wire.Frame(wire.TypeUpdate, make([]byte, 21))
						if state == stOpenSent {
							m = world.RemoteOpen(p, cn, 3, 0x0a000002).Frame()
						}
						cn.RemoteSend(m[:min(e.Partial, len(m)-1)], nil)
						w.Settle()
					}
					if e.Kind == "fin" {
						cn.RemoteClose()
					} else {
						cn.RemoteReset()
					}
				}
				te := now()
				w.Settle()
				if e.Kind == "recv" {
					cn.RemoteClose()
					w.Settle()
				}
				if !cn.Snapshot().LocalClosed {
					fail("connection-not-dropped", "%s: the connection is still open", where)
					return
				}
				if !e.damps() {
					if other != nil {
						other.RemoteClose()
						w.Settle()
					}
					// must not start or extend a hold-down: the next event's
					// getConn demands a connection within the normal bound;
					// also probe right away for passive peers
					if c.Passive || !out {
						pr := w.Inbound(p.Remote, "10.0.0.1")
						w.Settle()
						// an active peer may be busy with its own attempt; only passive is strict
						if c.Passive && len(pr.Snapshot().Bytes()) == 0 {
							fail("held-down-after-non-damping", "%s: an inbound connection right after a %s is refused", where, e.Kind)
							return
						}
						pr.RemoteClose()
						w.Settle()
					}
					continue
				}
				// protocol error: model update
				if lastErr >= 0 && te-lastErr >= c12Amnesia {
					delay = 0
				}
				nearAmnesia := lastErr >= 0 && (te-lastErr > c12Amnesia-2*time.Millisecond && te-lastErr < c12Amnesia+2*time.Millisecond)
				lastErr = te
				if delay > 0 {
					delay = min(2*delay, c12Max)
				} else {
					delay = c12Min
				}
				if nearAmnesia {
					// at the amnesia boundary itself either delay is defensible: stop here
					return
				}
				if other != nil && !other.Snapshot().LocalClosed {
					fail("other-connection-not-dropped", "%s: the peer's other connection (in OpenSent) was not dropped on a protocol error", where)
					return
				}
				windows = append(windows, window{te, te + delay})
				// probes inside the hold-down
				last := te
				for _, pm := range append(append([]int{}, e.Probes...), 995) {
					at := te + delay*time.Duration(pm)/1000
					if at <= last {
						continue
					}
					w.Advance(at - now())
					last = at
					pr := w.Inbound(p.Remote, "10.0.0.1")
					w.Settle()
					ps := pr.Snapshot()
					if len(ps.Writes) != 0 || !ps.LocalClosed {
						fail("inbound-during-holddown", "%s: protocol error at %v, hold-down %v; an inbound connection at %v (%v into it) was served: bytes=%d closed=%v", where, te, delay, at, at-te, len(ps.Bytes()), ps.LocalClosed)
						return
					}
				}
				// the end of the hold-down
				w.Advance(te + delay - eps - now())
				for _, d := range w.Net.Dials() {
					if d.At > te && d.At < te+delay-eps {
						fail("dial-during-holddown", "%s: protocol error at %v, hold-down %v; dial attempt at %v (%v into it)", where, te, delay, d.At, d.At-te)
						return
					}
				}
				if c.Passive {
					w.Advance(2 * eps)
					pr := w.Inbound(p.Remote, "10.0.0.1")
					w.Settle()
					if len(pr.Snapshot().Bytes()) == 0 {
						fail("holddown-too-long", "%s: protocol error at %v, hold-down should be %v; an inbound connection at %v is still refused", where, te, delay, now())
						return
					}
					pr.RemoteClose()
					w.Settle()
				} else {
					n0 := len(w.Net.Dials())
					if !w.Net.WaitDials(n0+1, 2*eps+idle+retry) {
						fail("holddown-too-long", "%s: protocol error at %v, hold-down should be %v; no dial attempt by %v", where, te, delay, now())
						return
					}
					w.Settle()
				}
			}
			// the peer can establish again
			w.Advance(eps)
			cn := getConn(false)
			if cn == nil && !c.Passive {
				cn = getConn(true)
			}
			if cn == nil {
				fail("not-retried", "after the history no connection can be brought up (now %v, last protocol error %v, delay %v)", now(), lastErr, delay)
				return
			}
			before := w.Sessions(p.Remote)
			for _, m := range handshakeBytes(p, cn, stEstablished, 3) {
				cn.RemoteSend(m, nil)
				w.Settle()
			}
			if w.Sessions(p.Remote) != before+1 {
				fail("cannot-establish-again", "after the history a full handshake did not establish a session")
			}
			_ = windows
		})
		if b := o.Bad(); b != "" {
			fail("wedge", "%s", b)
		}
		v.Dev = dev
		return v
	}
}

func genC12(rt *rapid.T) c12Case {
	c := c12Case{Passive: rapid.IntRange(0, 3).Draw(rt, "passive") == 0}
	n := rapid.IntRange(1, 8).Draw(rt, "nevents")
	for i := 0; i < n; i++ {
		e := c12Event{Kind: pick(rt, "kind", "recv", "recv", "marker", "badopen", "handler", "silence", "wrongmsg", "fin", "rst", "recv"),
			Out: rapid.Bool().Draw(rt, "out"), Both: rapid.IntRange(0, 3).Draw(rt, "both") == 0}
		e.State = pick(rt, "state", allStates...)
		switch e.Kind {
		case "recv":
			e.Code = pick[uint8](rt, "code", 1, 2, 3, 4, 5, 7, 6, 6, 0, 8, 255, rapid.Byte().Draw(rt, "coder"))
			if rapid.Bool().Draw(rt, "withsub") {
				sub := pick[uint8](rt, "sub", 0, 1, 2, 3, 4, 5, 6, 7, 8, 9, 10, 255, rapid.Byte().Draw(rt, "subr"))
				e.Sub = &sub
				e.DLen = pick(rt, "dlen", 0, 0, 1, 2, 6, 21, 4075)
			}
			e.Glued = rapid.IntRange(0, 2).Draw(rt, "glued") == 0
		case "badopen":
			e.State = stOpenSent
		case "handler":
			e.State = stEstablished
			e.Code = pick[uint8](rt, "hcode", 3, 7, 6, 1)
			if rapid.Bool().Draw(rt, "withhsub") {
				sub := pick[uint8](rt, "hsub", 0, 1, 2, 4, 8, 255, rapid.Byte().Draw(rt, "hsubr"))
				e.Sub = &sub
			}
		case "silence":
			e.State = pick(rt, "sstate", stOpenConfirm, stEstablished)
		case "fin", "rst":
			if rapid.IntRange(0, 1).Draw(rt, "withpartial") == 0 {
				e.Partial = pick(rt, "partial", 1, 18, 19, 20, 30, 39)
			}
		}
		e.WaitMs = pick(rt, "wait", 0, 1000, 59000, 61000, 298000, 302000, 299000, 301000, 600000, rapid.IntRange(0, 700000).Draw(rt, "waitr"))
		for j, k := 0, rapid.IntRange(0, 3).Draw(rt, "nprobes"); j < k; j++ {
			e.Probes = append(e.Probes, pick(rt, "probe", 1, 500, 990, rapid.IntRange(1, 990).Draw(rt, "prober")))
		}
		// probes must be increasing
		for j := 1; j < len(e.Probes); j++ {
			if e.Probes[j] <= e.Probes[j-1] {
				e.Probes = e.Probes[:j]
				break
			}
		}
		c.Events = append(c.Events, e)
	}
	return c
}

func TestC12(t *testing.T) {
	r := hx.Start(t, "C12")
	defer r.Finish(t)
	hx.Rapid(r, t, "histories", r.N(3000, 30000), genC12, c12Prop(t, r))
	// damping depends on the code alone: every subcode of every code 1..7 received, and every
	// subcode of a Cease / UPDATE error returned by the handler
	hx.Enum(r, t, "every_code_x_subcode", 9*256, func(yield func(c12Case) bool) {
		for sub := 0; sub < 256; sub++ {
			sb := uint8(sub)
			for code := uint8(1); code <= 7; code++ {
				e := c12Event{Kind: "recv", Code: code, Sub: &sb, State: allStates[(sub+int(code))%3], Out: (sub/3)%2 == 0, WaitMs: 0}
				if !yield(c12Case{Passive: sub%5 == 0, Events: []c12Event{e}}) {
					return
				}
			}
			for _, code := range []uint8{6, 3} {
				e := c12Event{Kind: "handler", Code: code, Sub: &sb, State: stEstablished, Out: sub%2 == 0}
				if !yield(c12Case{Events: []c12Event{e}}) {
					return
				}
			}
		}
	}, c12Prop(t, r, "every_code_x_subcode"))
	// an inbound connection racing the protocol error, with each schedule point held in turn
	reps := r.N(2, 12)
	hx.Enum(r, t, "inbound_races_error", 0, func(yield func(c12RaceCase) bool) {
		for rep := 0; rep < reps; rep++ {
			for _, state := range []string{stOpenSent, stOpenConfirm, stEstablished} {
				for _, kind := range []string{"recv", "marker"} {
					for _, cf := range []bool{true, false} {
						if !yield(c12RaceCase{State: state, Kind: kind, ConnFirst: cf}) {
							return
						}
						for _, pt := range []string{"fsm.transition", "peer.loop"} {
							for skip := 0; skip < 3; skip++ {
								for _, d := range []int64{10, 50, 150} {
									if !yield(c12RaceCase{State: state, Kind: kind, ConnFirst: cf, Point: pt, Skip: skip, D: d}) {
										return
									}
									if pt == "fsm.transition" && !yield(c12RaceCase{State: state, Kind: kind, ConnFirst: cf, Point: pt, Skip: skip, D: d, Point2: "peer.loop", Skip2: skip % 2}) {
										return
									}
								}
							}
						}
					}
				}
			}
		}
	}, c12RaceProp(t, r, "inbound_races_error"))
}

// ---- an inbound connection arriving at the instant of the protocol error

// The error and the inbound connection reach the peer manager in the same
// burst, with the new inbound FSM or the manager held at a schedule point for
// a while. Whatever the order, once the dust has settled nothing of the peer
// may be open ("drops both connections ... refuses its inbound connections"),
// and the peer stays silent for the hold-down.
type c12RaceCase struct {
	State     string `json:"state"` // state of the outbound connection when the error happens
	Kind      string `json:"kind"`  // recv (remote sends code 2), marker (corebgp sends code 1)
	ConnFirst bool   `json:"conn_first"`
	Point     string `json:"point,omitempty"` // armed schedule point
	Skip      int    `json:"skip"`
	D         int64  `json:"d"`
	Point2    string `json:"point2,omitempty"`
	Skip2     int    `json:"skip2,omitempty"`
}

func c12RaceProp(t *testing.T, r *hx.Run, sub string) func(c c12RaceCase) hx.Verdict {
	return func(c c12RaceCase) hx.Verdict {
		r.SetCurrent(sub, c)
		v := hx.Verdict{Class: fmt.Sprintf("%s/%s/connfirst=%v/armed=%v", c.State, c.Kind, c.ConnFirst, c.Point != "")}
		if c.Point != "" {
			v.NT = fmt.Sprintf("%+v", c)
		}
		p := world.PeerSpec{Remote: "10.0.0.2", LocalAS: 64512, RemoteAS: 64513, Hold: 90, IdleHoldMs: 1000, ConnRetryMs: 2000}
		var dev *hx.Dev
		fail := func(key, f string, a ...any) {
			if dev == nil {
				dev = hx.Devf(key, f, a...)
			}
		}
		o := world.Run(t, func() {
			w, err := world.New("10.0.0.1", []int64{0})
			if err != nil {
				fail("setup", "%v", err)
				return
			}
			defer func() {
				if dev != nil {
					dev.Msg += "\n" + w.Dump()
				}
				w.Finish()
			}()
			w.Net.SetPlans(p.RemoteAddr(), memnet.DialPlan{Kind: memnet.Accept}, memnet.DialPlan{Kind: memnet.Refuse})
			if err := w.AddPeer(p); err != nil {
				fail("setup", "%v", err)
				return
			}
			w.Serve()
			w.Settle()
			out := w.DialedConn(p.Remote, 0)
			if out == nil {
				fail("setup", "no outbound connection")
				return
			}
			for _, m := range handshakeBytes(p, out, c.State, 90) {
				out.RemoteSend(m, nil)
				w.Settle()
			}
			if c.Point != "" {
				w.Arm(c.Point, c.Skip, c.D)
			}
			if c.Point2 != "" {
				w.Arm(c.Point2, c.Skip2, c.D)
			}
			bad := wire.Keepalive()
			bad[3] = 0
			sendErr := func() {
				if c.Kind == "recv" {
					out.RemoteSend(wire.Notif{Code: 2, Sub: 2}.Frame(), nil)
				} else {
					out.RemoteSend(bad, nil)
				}
			}
			var in *memnet.Conn
			te := w.Net.Since()
			if c.ConnFirst {
				in = w.Inbound(p.Remote, "10.0.0.1")
				sendErr()
			} else {
				sendErr()
				in = w.Inbound(p.Remote, "10.0.0.1")
			}
			w.Settle()
			if !out.Snapshot().LocalClosed {
				fail("connection-not-dropped", "the outbound connection is still open after the protocol error")
				return
			}
			is := in.Snapshot()
			if !is.LocalClosed {
				fail("inbound-survives-protocol-error", "an inbound connection that arrived in the same instant as the protocol error is still open when the dust has settled (corebgp wrote %d bytes on it): the peer must be held down", len(is.Bytes()))
				return
			}
			// silent for the hold-down: no dial, no session, probes refused
			nd := len(w.Net.Dials())
			for _, at := range []time.Duration{time.Second, 30 * time.Second, 59 * time.Second} {
				w.Advance(te + at - w.Net.Since())
				pr := w.Inbound(p.Remote, "10.0.0.1")
				w.Settle()
				if ps := pr.Snapshot(); len(ps.Writes) != 0 || !ps.LocalClosed {
					fail("inbound-during-holddown", "an inbound connection %v into the hold-down was served: bytes=%d closed=%v", at, len(ps.Bytes()), ps.LocalClosed)
					return
				}
			}
			if n := len(w.Net.Dials()); n != nd {
				fail("dial-during-holddown", "%d dial attempts during the first 59 s of the hold-down", n-nd)
				return
			}
			if w.Sessions(p.Remote) != map[bool]int{true: 1, false: 0}[c.State == stEstablished] {
				fail("session-during-holddown", "a session was established during the hold-down")
			}
		})
		if b := o.Bad(); b != "" {
			fail("wedge", "%s", b)
		}
		v.Dev = dev
		return v
	}
}
