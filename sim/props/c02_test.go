package props

import (
	"bytes"
	"fmt"
	"net/netip"

	"github.com/jwhited/corebgp"
	"strings"
	"testing"
	"time"

	"pgregory.net/rapid"

	"verif/sim/hx"
	"verif/sim/memnet"
	"verif/sim/wire"
	"verif/sim/world"
)

// C02 - OPEN handshake: exactly the valid OPENs are accepted, others refused
// correctly.

type c02Case struct {
	RouterID  string           `json:"router_id"`
	LocalAS   uint32           `json:"local_as"`
	RemoteAS  uint32           `json:"remote_as"`
	LocalHold int              `json:"local_hold"`
	Out       bool             `json:"out"`
	Passive   bool             `json:"passive"`
	Body      hx.Hex           `json:"body"`
	Cuts      []int            `json:"cuts,omitempty"`
	Label     string           `json:"label"`
	OpenNotif *world.NotifSpec `json:"open_notif,omitempty"`
	// Trailer: a message pipelined right behind the OPEN in the same stream:
	// 1 = Cease NOTIFICATION with 40 data bytes, 2 = UPDATE with a 64-byte body,
	// 3 = KEEPALIVE and then the FIN, 4 = the FIN alone (for 3 and 4 OnOpenMessage
	// busy-waits a little: everything has arrived by the time the OPEN is dealt with)
	Trailer int `json:"trailer,omitempty"`
	// Prev: earlier sessions of the same peer (outbound: of the same FSM object),
	// each Established and ended without damping, before the connection under test
	Prev []world.PrevSession `json:"prev,omitempty"`
}

func ipToU32(s string) uint32 {
	a := netip.MustParseAddr(s).As4()
	return uint32(a[0])<<24 | uint32(a[1])<<16 | uint32(a[2])<<8 | uint32(a[3])
}

func u32ToIP(v uint32) string {
	return netip.AddrFrom4([4]byte{byte(v >> 24), byte(v >> 16), byte(v >> 8), byte(v)}).String()
}

func genAS(rt *rapid.T, label string) uint32 {
	return pick[uint32](rt, label, 1, 64512, 65535, 65536, 23456, 4200000000, 4294967295,
		rapid.Uint32Range(1, 65535).Draw(rt, label+"s"), rapid.Uint32Range(65536, 4294967295).Draw(rt, label+"l"))
}

func genRouterID(rt *rapid.T) string {
	return pick(rt, "rid", "10.0.0.1", "1.1.1.1", "192.0.2.1", "0.0.0.1", "223.255.255.255", "255.255.255.255", "127.0.0.1",
		u32ToIP(rapid.Uint32Range(1, 0xdfffffff).Draw(rt, "ridr")))
}

func genC02(rt *rapid.T) c02Case {
	c := c02Case{
		RouterID:  genRouterID(rt),
		LocalAS:   genAS(rt, "las"),
		RemoteAS:  genAS(rt, "ras"),
		LocalHold: pick(rt, "lhold", 0, 3, 90, 90, rapid.IntRange(3, 65535).Draw(rt, "lholdr")),
		Out:       rapid.Bool().Draw(rt, "out"),
	}
	if !c.Out {
		c.Passive = rapid.Bool().Draw(rt, "passive")
	}
	if rapid.IntRange(0, 5).Draw(rt, "sameas") == 0 {
		c.RemoteAS = c.LocalAS
	}
	localID := ipToU32(c.RouterID)

	// a valid base
	hold := pick[uint16](rt, "rhold", 0, 3, 90, 180, 65535, uint16(rapid.IntRange(3, 65535).Draw(rt, "rholdr")))
	id := pick[uint32](rt, "rid2", 0x0a000002, 1, 0xdfffffff, 0x7f000001, rapid.Uint32Range(1, 0xdfffffff).Draw(rt, "rid2r"))
	if c.LocalAS == c.RemoteAS && id == localID {
		id ^= 0x100
	}
	var extra []wire.Cap
	for i, n := 0, rapid.IntRange(0, 4).Draw(rt, "nextra"); i < n; i++ {
		cp := genCap(rt, 30)
		if cp.Code == 65 {
			cp.Code = 64
		}
		extra = append(extra, cp)
	}
	o := wire.NewOpen(c.RemoteAS, hold, id, extra...)
	// sometimes put the 4-octet capability last / in a separate parameter
	switch rapid.IntRange(0, 5).Draw(rt, "layout") {
	case 0:
		cs := o.Params[0].Caps
		cs = append(cs[1:], cs[0])
		o.Params[0].Caps = cs
	case 1:
		if len(o.Params[0].Caps) > 1 {
			cs := o.Params[0].Caps
			o.Params = []wire.Param{{Type: 2, Caps: cs[1:]}, {Type: 2, Caps: cs[:1]}}
		}
	case 2:
		if len(o.Params[0].Caps) > 2 {
			cs := o.Params[0].Caps
			o.Params = []wire.Param{{Type: 2, Caps: cs[:1]}, {Type: 2, Caps: cs[1:2]}, {Type: 2, Caps: cs[2:]}}
		}
	}

	kind := rapid.IntRange(0, 29).Draw(rt, "fault")
	switch {
	case kind <= 5:
		c.Label = "valid"
		c.Body = o.Body()
	case kind == 6:
		c.Label = "version"
		o.Version = pick[uint8](rt, "ver", 0, 1, 3, 5, 255, rapid.Byte().Draw(rt, "verr"))
		c.Body = o.Body()
	case kind == 7:
		c.Label = "as2"
		o.AS2 = pick[uint16](rt, "as2", 0, o.AS2+1, o.AS2-1, uint16(c.RemoteAS>>16), rapid.Uint16().Draw(rt, "as2r"))
		c.Body = o.Body()
	case kind == 8:
		c.Label = "astrans-no-cap"
		o.AS2 = wire.ASTrans
		for i := range o.Params {
			var cs []wire.Cap
			for _, cp := range o.Params[i].Caps {
				if cp.Code != 65 {
					cs = append(cs, cp)
				}
			}
			o.Params[i].Caps = cs
		}
		o.Params = dropEmptyParams(o.Params, rt)
		c.Body = o.Body()
	case kind == 9:
		c.Label = "cap65-wrong-as"
		o.AS2 = pick[uint16](rt, "as2", o.AS2, wire.ASTrans)
		setCap65(&o, wire.Cap4(c.RemoteAS^pick[uint32](rt, "flip", 1, 0x10000, 0x80000000, 0xffff)))
		c.Body = o.Body()
	case kind == 10:
		c.Label = "hold"
		o.Hold = pick[uint16](rt, "badhold", 1, 2)
		c.Body = o.Body()
	case kind == 11:
		c.Label = "id-multicast"
		o.ID = pick[uint32](rt, "mid", 0xe0000000, 0xe0000001, 0xefffffff, 0xe0000000|rapid.Uint32Range(0, 0x0fffffff).Draw(rt, "midr"))
		c.Body = o.Body()
	case kind == 12:
		c.Label = "id-equals-local"
		o.ID = localID
		if rapid.Bool().Draw(rt, "sameas2") {
			c.RemoteAS = c.LocalAS
			o = rebuildAS(o, c.RemoteAS)
		}
		c.Body = o.Body()
	case kind == 13:
		c.Label = "optlen"
		b := o.Body()
		b[9] += pick[uint8](rt, "dlen", 1, 255, 2, 254, 128, rapid.Byte().Draw(rt, "dlenr"))
		c.Body = b
	case kind == 14:
		c.Label = "param-type"
		p := wire.Param{Type: pick[uint8](rt, "ptype", 0, 1, 3, 255, rapid.Byte().Draw(rt, "ptyper")), Raw: genBytes(rt, "praw", 8)}
		if p.Raw == nil {
			p.Raw = []byte{}
		}
		k := rapid.IntRange(0, len(o.Params)).Draw(rt, "ppos")
		o.Params = append(o.Params[:k], append([]wire.Param{p}, o.Params[k:]...)...)
		c.Body = o.Body()
	case kind == 15:
		c.Label = "param-truncated"
		b := o.Body()
		b = append(b, 2) // one octet of a parameter header
		b[9]++
		c.Body = b
	case kind == 16:
		c.Label = "param-overrun"
		b := o.Body()
		// raise the last parameter's length octet beyond the bytes present
		off := 10
		last := off
		for off < len(b) {
			last = off
			off += 2 + int(b[off+1])
		}
		b[last+1] += pick[uint8](rt, "over", 1, 2, 100)
		c.Body = b
	case kind == 17:
		c.Label = "param-list-empty"
		o.Params = nil
		if rapid.Bool().Draw(rt, "astrans") {
			o.AS2 = wire.ASTrans
		}
		c.Body = o.Body()
	case kind == 18:
		c.Label = "cap-param-empty"
		k := rapid.IntRange(0, len(o.Params)).Draw(rt, "ppos")
		o.Params = append(o.Params[:k], append([]wire.Param{{Type: 2, Caps: []wire.Cap{}}}, o.Params[k:]...)...)
		c.Body = o.Body()
	case kind == 19:
		c.Label = "cap-truncated"
		// a capability header of one octet at the end of the last parameter
		p := &o.Params[len(o.Params)-1]
		raw := []byte{}
		for _, cp := range p.Caps {
			raw = append(raw, cp.Bytes()...)
		}
		raw = append(raw, 7)
		p.Raw = raw
		c.Body = o.Body()
	case kind == 20:
		c.Label = "cap-overrun"
		p := &o.Params[len(o.Params)-1]
		raw := []byte{}
		for _, cp := range p.Caps {
			raw = append(raw, cp.Bytes()...)
		}
		raw = append(raw, 7, pick[uint8](rt, "cover", 2, 3, 200), 0)[:len(raw)+2+rapid.IntRange(0, 1).Draw(rt, "keep")]
		p.Raw = raw
		c.Body = o.Body()
	case kind == 21:
		c.Label = "cap65-length"
		n := pick(rt, "c65len", 0, 1, 2, 3, 5, 8)
		setCap65(&o, wire.Cap{Code: 65, Value: wire.Cap4(c.RemoteAS).Value[:min(n, 4)]})
		if n > 4 {
			setCap65(&o, wire.Cap{Code: 65, Value: append(wire.Cap4(c.RemoteAS).Value, make([]byte, n-4)...)})
		}
		c.Body = o.Body()
	case kind == 22:
		c.Label = "cap65-duplicate"
		dup := wire.Cap4(c.RemoteAS)
		if rapid.Bool().Draw(rt, "conflict") {
			dup = wire.Cap4(c.RemoteAS + 1)
			c.Label = "cap65-conflict"
		}
		p := &o.Params[rapid.IntRange(0, len(o.Params)-1).Draw(rt, "dpos")]
		if rapid.Bool().Draw(rt, "front") {
			p.Caps = append([]wire.Cap{dup}, p.Caps...)
		} else {
			p.Caps = append(p.Caps, dup)
		}
		c.Body = o.Body()
	case kind == 23:
		c.Label = "cap65-missing"
		for i := range o.Params {
			var cs []wire.Cap
			for _, cp := range o.Params[i].Caps {
				if cp.Code != 65 {
					cs = append(cs, cp)
				}
			}
			o.Params[i].Caps = cs
		}
		o.Params = dropEmptyParams(o.Params, rt)
		if c.RemoteAS > 65535 {
			// without the capability a large AS can only be AS_TRANS
			o.AS2 = wire.ASTrans
		}
		c.Body = o.Body()
	case kind == 24:
		c.Label = "short"
		c.Body = o.Body()[:rapid.IntRange(0, 9).Draw(rt, "shortlen")]
	case kind == 25:
		c.Label = "random"
		n := pick(rt, "rlen", 0, 9, 10, 11, 12, 29, rapid.IntRange(0, 64).Draw(rt, "rlens"), rapid.IntRange(0, wire.MaxBody).Draw(rt, "rlenl"))
		c.Body = genBytesN(rt, "rbody", n)
	case kind == 26:
		c.Label = "two-faults"
		o.Hold = pick[uint16](rt, "badhold", 1, 2)
		o.Version = 3
		if rapid.Bool().Draw(rt, "third") {
			o.ID = 0xe0000001
		}
		c.Body = o.Body()
	case kind == 27:
		c.Label = "id-zero"
		o.ID = 0
		c.Body = o.Body()
	default:
		c.Label = "mutated"
		c.Body, _ = mutateBytes(rt, o.Body())
	}
	if len(c.Body) > wire.MaxBody {
		c.Body = c.Body[:wire.MaxBody]
	}
	c.Cuts = genCuts(rt, wire.HeaderLen+len(c.Body))
	if rapid.IntRange(0, 3).Draw(rt, "trailer") == 0 {
		c.Trailer = rapid.IntRange(1, 4).Draw(rt, "trailerkind")
		c.Cuts = genCuts(rt, wire.HeaderLen+len(c.Body)+60)
	}
	if rapid.IntRange(0, 7).Draw(rt, "pluginnotif") == 0 {
		n := pick(rt, "pndata", 0, 1, 2, 7, 255)
		c.OpenNotif = &world.NotifSpec{Code: pick[uint8](rt, "pncode", 2, 6, 2, rapid.Byte().Draw(rt, "pncoder")),
			Sub: pick[uint8](rt, "pnsub", 7, 0, 4, rapid.Byte().Draw(rt, "pnsubr")), Data: genBytesN(rt, "pnd", n)}
	}
	if c.OpenNotif == nil && rapid.IntRange(0, 3).Draw(rt, "withprev") == 0 { // (a refusing plugin would refuse the earlier sessions too)
		for i, n := 0, rapid.IntRange(1, 2).Draw(rt, "nprev"); i < n; i++ {
			c.Prev = append(c.Prev, world.PrevSession{Hold: pick[uint16](rt, "prevhold", 0, 3, 90, 180), End: pick(rt, "prevend", "fin", "cease", "cease+junk", "handler-cease"), In: rapid.IntRange(0, 2).Draw(rt, "previn") == 0})
		}
	}
	return c
}

func dropEmptyParams(ps []wire.Param, rt *rapid.T) []wire.Param {
	var out []wire.Param
	for _, p := range ps {
		if len(p.Caps) > 0 || p.Raw != nil {
			out = append(out, p)
		}
	}
	if len(out) == 0 {
		// keep the list well-formed and non-empty with some other capability
		out = []wire.Param{{Type: 2, Caps: []wire.Cap{{Code: 2, Value: []byte{}}}}}
	}
	return out
}

func setCap65(o *wire.Open, nc wire.Cap) {
	for i := range o.Params {
		for j := range o.Params[i].Caps {
			if o.Params[i].Caps[j].Code == 65 {
				o.Params[i].Caps[j] = nc
				return
			}
		}
	}
}

func rebuildAS(o wire.Open, as uint32) wire.Open {
	if as > 65535 {
		o.AS2 = wire.ASTrans
	} else {
		o.AS2 = uint16(as)
	}
	setCap65(&o, wire.Cap4(as))
	return o
}

func asClass(as uint32) string {
	switch {
	case as == 23456:
		return "astrans"
	case as <= 65535:
		return "2oct"
	default:
		return "4oct"
	}
}

func sameCaps(got []wire.Cap, want []wire.Cap) bool {
	if len(got) != len(want) {
		return false
	}
	for i := range got {
		if got[i].Code != want[i].Code || !bytes.Equal(got[i].Value, want[i].Value) {
			return false
		}
	}
	return true
}

func c02Prop(t *testing.T, r *hx.Run) func(c c02Case) hx.Verdict {
	return func(c c02Case) hx.Verdict {
		r.SetCurrent("open_handshake", c)
		cfg := wire.OpenCfg{LocalID: ipToU32(c.RouterID), LocalAS: c.LocalAS, RemoteAS: c.RemoteAS}
		ref := wire.ClassifyOpen(c.Body, cfg)
		dir := "in"
		if c.Out {
			dir = "out"
		}
		cls := "valid"
		if len(ref.Faults) > 0 {
			cls = strings.Join(ref.Faults, "+")
		} else if len(ref.Soft) > 0 {
			cls = "soft:" + strings.Join(ref.Soft, "+")
		}
		if c.OpenNotif != nil && len(ref.Faults) == 0 {
			cls += ",plugin-notif"
		}
		v := hx.Verdict{Class: dir + "/" + cls}
		consistent := len(c.Body) >= 10 && int(c.Body[9]) == len(c.Body)-10
		if (consistent || len(ref.Faults) == 1) && len(ref.Soft) == 0 {
			v.NT = fmt.Sprintf("%s/%s/%s/%d/%s", dir, asClass(c.LocalAS), asClass(c.RemoteAS), c.LocalHold, h64(c.Body))
		}

		peer := world.PeerSpec{Remote: "10.0.0.2", LocalAS: c.LocalAS, RemoteAS: c.RemoteAS, Passive: c.Passive, Hold: c.LocalHold,
			Plugin: world.PluginSpec{OpenNotif: c.OpenNotif}}
		if c.Trailer >= 3 {
			peer.Plugin.SpinUs = map[string]int64{"open": 200}
		}
		var dev *hx.Dev
		fail := func(key, f string, a ...any) {
			if dev == nil {
				dev = hx.Devf(key, f, a...)
			}
		}
		out, serr := world.SinglePrev(t, c.RouterID, peer, c.Out, nil, c.Prev, func(w *world.World, conn *memnet.Conn) {
			evBase := w.Rec.Len()
			if evBase > 0 {
				// the events of the earlier sessions, minus this connection's own GetCapabilities
				for i, e := range w.Rec.Events() {
					if e.K == "close-" {
						evBase = i + 1
					}
				}
			}
			pre, perr := world.Parsed(conn)
			if perr != nil || len(pre) != 1 || pre[0].Type != wire.TypeOpen {
				fail("no-open-sent", "corebgp did not send exactly one OPEN on the new connection: %d messages, err %v", len(pre), perr)
				return
			}
			stream := wire.Frame(wire.TypeOpen, c.Body)
			switch c.Trailer {
			case 1:
				stream = append(stream, wire.Notif{Code: 6, Sub: 2, Data: bytes.Repeat([]byte{0xAA}, 40)}.Frame()...)
			case 2:
				stream = append(stream, wire.Frame(wire.TypeUpdate, bytes.Repeat([]byte{0x55}, 64))...)
			case 3:
				stream = append(stream, wire.Keepalive()...)
			}
			conn.RemoteSend(stream, c.Cuts)
			if c.Trailer >= 3 {
				conn.RemoteClose()
			}
			w.Settle()
			msgs, perr := world.Parsed(conn)
			if perr != nil {
				fail("malformed-output", "corebgp's byte stream is not whole messages: %v", perr)
				return
			}
			after := msgs[1:]
			st := conn.Snapshot()
			var opens []world.Ev
			for _, e := range w.Rec.Events()[evBase:] {
				if e.K == "open+" {
					opens = append(opens, e)
				}
			}
			countEst := func() int {
				n := 0
				for _, e := range w.Rec.Events()[evBase:] {
					if e.K == "est+" {
						n++
					}
				}
				return n
			}
			refusedCheck := func(n wire.Notif) {
				if len(after) != 1 {
					fail("refusal-extra-messages", "refusal must be a single NOTIFICATION, corebgp sent %d messages after its OPEN", len(after))
				}
				if !st.LocalClosed {
					fail("refusal-not-closed", "corebgp sent %v but left the connection open", n)
				}
				conn.RemoteSend(wire.Keepalive(), nil) // (not delivered once the remote has closed)
				w.Advance(200 * time.Millisecond)
				if k := countEst(); k != 0 {
					fail("established-after-refusal", "OnEstablished fired %d times after the OPEN was refused with %v", k, n)
				}
			}
			switch {
			case len(after) >= 1 && after[0].Type == wire.TypeKeepalive:
				// corebgp proceeded
				if ref.MustRefuse() {
					fail("accepted-faulty-open", "corebgp accepted an OPEN with faults %v (body %x)", ref.Faults, clip(c.Body))
					return
				}
				if c.OpenNotif != nil {
					fail("plugin-notif-ignored", "OnOpenMessage returned a Notification but corebgp sent KEEPALIVE")
					return
				}
				if len(after) != 1 && c.Trailer == 0 {
					fail("accept-extra-messages", "expected exactly a KEEPALIVE after the OPEN, got %d messages", len(after))
					return
				}
				if len(opens) != 1 {
					fail("onopen-count", "OnOpenMessage was called %d times for an accepted OPEN", len(opens))
					return
				}
				if ref.Parsed == nil {
					fail("accepted-unparsable", "accepted an OPEN the strict parser rejects: %v", ref.ParsedErr)
					return
				}
				if opens[0].ID != u32ToIP(ref.Parsed.ID) {
					fail("onopen-id", "OnOpenMessage got identifier %s, the OPEN carries %s", opens[0].ID, u32ToIP(ref.Parsed.ID))
					return
				}
				if !sameCaps(opens[0].Caps, ref.Parsed.AllCaps()) {
					fail("onopen-caps", "OnOpenMessage got capabilities %v, the OPEN carries %v", opens[0].Caps, ref.Parsed.AllCaps())
					return
				}
				if s := w.RetainedIntact(); s != "" {
					fail("capabilities-modified", "%s", s)
					return
				}
				if c.Trailer == 3 {
					// OPEN, KEEPALIVE and FIN arrived together: the session is Established on
					// the KEEPALIVE all the same (and ends with the FIN)
					if k := countEst(); k != 1 {
						fail("not-established", "a valid OPEN and the KEEPALIVE arrived together, followed by the remote's close: OnEstablished fired %d times", k)
					}
					return
				}
				if c.Trailer != 0 {
					return // what the pipelined message does to the session is C09's business
				}
				if st.LocalClosed {
					fail("accept-closed", "corebgp sent KEEPALIVE and then closed the connection")
					return
				}
				if countEst() != 0 {
					fail("established-early", "OnEstablished fired before the remote's KEEPALIVE")
					return
				}
				conn.RemoteSend(wire.Keepalive(), nil)
				w.Advance(200 * time.Millisecond)
				if k := countEst(); k != 1 {
					fail("not-established", "after a valid OPEN and KEEPALIVE OnEstablished fired %d times", k)
					return
				}
				if s2 := conn.Snapshot(); s2.LocalClosed {
					fail("established-then-closed", "session was closed right after establishment")
					return
				}
				// the capability slices handed to OnOpenMessage stay as they were
				conn.RemoteSend(wire.Frame(wire.TypeUpdate, bytes.Repeat([]byte{0x33}, 200)), nil)
				w.Settle()
				if s := w.RetainedIntact(); s != "" {
					fail("capabilities-modified", "%s", s)
				}
			case len(after) >= 1 && after[0].Type == wire.TypeNotification:
				n, _ := wire.ParseNotif(after[0].Body)
				if len(ref.Faults) == 0 && c.OpenNotif != nil && !(len(ref.Soft) > 0 && len(opens) == 0) {
					// the plugin refused it: verbatim
					if len(opens) != 1 {
						fail("onopen-count", "OnOpenMessage was called %d times", len(opens))
					}
					if n.Code != c.OpenNotif.Code || n.Sub != c.OpenNotif.Sub || !bytes.Equal(n.Data, c.OpenNotif.Data) {
						key := "plugin-notif-not-verbatim"
						fail(key, "OnOpenMessage returned (%d,%d,%x), the wire shows %v", c.OpenNotif.Code, c.OpenNotif.Sub, clip(c.OpenNotif.Data), n)
					}
					refusedCheck(n)
					return
				}
				if ref.MustAccept() {
					fail("refused-valid-open", "corebgp refused a valid OPEN with %v (body %x)", n, clip(c.Body))
					return
				}
				if !ref.Allows(n) {
					fail("wrong-notification", "OPEN with faults %v soft %v was refused with %v; allowed: %v", ref.Faults, ref.Soft, n, ref.Allowed)
					return
				}
				if len(opens) != 0 {
					fail("onopen-on-refused", "OnOpenMessage was called for an OPEN that was refused with %v", n)
					return
				}
				refusedCheck(n)
			default:
				fail("no-reaction", "after the remote's OPEN (faults %v) corebgp sent %d messages (first type %v), closed=%v", ref.Faults, len(after), firstType(after), st.LocalClosed)
			}
		})
		if serr != nil {
			fail("setup", "%v", serr)
		}
		if b := out.Bad(); b != "" {
			fail("wedge", "%s", b)
		}
		v.Dev = dev
		return v
	}
}

func firstType(m []wire.Msg) any {
	if len(m) == 0 {
		return "none"
	}
	return m[0].Type
}

func TestC02(t *testing.T) {
	r := hx.Start(t, "C02")
	defer r.Finish(t)
	hx.Rapid(r, t, "open_handshake", r.N(15000, 150000), genC02, c02Prop(t, r))
	hx.Rapid(r, t, "decode_validate_pure", r.N(150000, 1500000), c02PureGen, c02PureProp)
}

// ---- pure differential: decode + validate (through the export shims) against
// the reference classifier, without running an FSM. Much cheaper per case, so
// it explores far more OPEN bodies and configurations than the handshake
// sub-check; the wire-level behaviour is the handshake sub-check's business.

type c02Pure struct {
	LocalID  uint32 `json:"local_id"`
	LocalAS  uint32 `json:"local_as"`
	RemoteAS uint32 `json:"remote_as"`
	Body     hx.Hex `json:"body"`
}

func c02PureProp(c c02Pure) hx.Verdict {
	ref := wire.ClassifyOpen(c.Body, wire.OpenCfg{LocalID: c.LocalID, LocalAS: c.LocalAS, RemoteAS: c.RemoteAS})
	cls := "valid"
	if len(ref.Faults) > 0 {
		cls = strings.Join(ref.Faults, "+")
	} else if len(ref.Soft) > 0 {
		cls = "soft:" + strings.Join(ref.Soft, "+")
	}
	v := hx.Verdict{Class: cls}
	consistent := len(c.Body) >= 10 && int(c.Body[9]) == len(c.Body)-10
	if (consistent || len(ref.Faults) == 1) && len(ref.Soft) == 0 {
		v.NT = fmt.Sprintf("%d/%d/%d/%s", c.LocalID, c.LocalAS, c.RemoteAS, h64(c.Body))
	}
	var err error
	o, derr := corebgp.VerifDecodeOpen(c.Body)
	if derr != nil {
		err = derr
	} else {
		err = corebgp.VerifValidateOpen(o, c.LocalID, c.LocalAS, c.RemoteAS)
	}
	if err == nil {
		if ref.MustRefuse() {
			v.Dev = hx.Devf("accepted-faulty-open", "decode+validate accepted an OPEN with faults %v (body %x)", ref.Faults, clip(c.Body))
			return v
		}
		if ref.Parsed == nil {
			v.Dev = hx.Devf("accepted-unparsable", "accepted an OPEN the strict parser rejects: %v", ref.ParsedErr)
			return v
		}
		if d := sameOpen(o, *ref.Parsed); d != "" {
			v.Dev = hx.Devf("decoded-wrong", "%s", d)
		}
		return v
	}
	n, out, ok := corebgp.VerifNotifFromErr(err)
	if !ok || !out || n == nil {
		v.Dev = hx.Devf("refusal-without-notification", "OPEN refused with %v, which carries no outbound NOTIFICATION", err)
		return v
	}
	if ref.MustAccept() {
		v.Dev = hx.Devf("refused-valid-open", "decode+validate refused a valid OPEN with (%d,%d,%x) (body %x)", n.Code, n.Subcode, clip(n.Data), clip(c.Body))
		return v
	}
	if !ref.Allows(wire.Notif{Code: n.Code, Sub: n.Subcode, Data: n.Data}) {
		// the (1,2) Bad Message Length for a short body carries the body as data: unspecified
		v.Dev = hx.Devf("wrong-notification", "OPEN with faults %v soft %v refused with (%d,%d,%x); allowed: %v", ref.Faults, ref.Soft, n.Code, n.Subcode, clip(n.Data), ref.Allowed)
	}
	return v
}

func init() {
	c02PureGen = func(rt *rapid.T) c02Pure {
		c := genC02(rt)
		return c02Pure{LocalID: ipToU32(c.RouterID), LocalAS: c.LocalAS, RemoteAS: c.RemoteAS, Body: c.Body}
	}
}

var c02PureGen func(rt *rapid.T) c02Pure

func TestC02Pure(t *testing.T) {} // placeholder so that -run ^TestC02$ stays exact

func FuzzC02Classify(f *testing.F) {
	f.Add(wire.NewOpen(65001, 90, 0x0a000002).Body(), uint32(0x0a000001), uint32(64512), uint32(65001))
	f.Add(wire.NewOpen(4200000000, 0, 1).Body(), uint32(1), uint32(4200000000), uint32(4200000000))
	f.Add([]byte{4, 0x5b, 0xa0, 0, 3, 1, 2, 3, 4, 0}, uint32(7), uint32(1), uint32(70000))
	f.Add([]byte{4, 0, 1, 0, 3, 1, 2, 3, 4, 4, 2, 2, 65, 0}, uint32(7), uint32(1), uint32(1))
	f.Add([]byte{4, 0, 1, 0, 3, 0xe0, 2, 3, 4, 8, 2, 6, 65, 4, 0, 0, 0, 1}, uint32(7), uint32(1), uint32(1))
	f.Fuzz(func(t *testing.T, body []byte, lid, las, ras uint32) {
		if len(body) > wire.MaxBody || las == 0 || ras == 0 {
			return
		}
		v := c02PureProp(c02Pure{LocalID: lid, LocalAS: las, RemoteAS: ras, Body: body})
		if v.Dev != nil {
			t.Fatalf("key=%s %s", v.Dev.Key, v.Dev.Msg)
		}
	})
}
