package props

import (
	"errors"
	"fmt"
	"iter"
	"net/netip"
	"sort"
	"strings"
	"sync"
	"sync/atomic"
	"testing"
	"time"

	"github.com/anishathalye/porcupine"
	"github.com/jwhited/corebgp"
	"pgregory.net/rapid"

	"verif/sim/hx"
	"verif/sim/memnet"
	"verif/sim/wire"
	"verif/sim/world"
)

// C20 - peer registry behaves as a consistent map and rejects unusable configs.

// ---- (a) configuration grid

type c20Cfg struct {
	Remote   string `json:"remote"` // "" = zero Addr
	Local    string `json:"local"`  // "" = none
	LocalAS  uint32 `json:"local_as"`
	RemoteAS uint32 `json:"remote_as"`
	Hold     int    `json:"hold"` // -1 = option not given
	Port     int    `json:"port"` // -99 = option not given
	Passive  bool   `json:"passive"`
}

func parseAddrOrZero(s string) netip.Addr {
	if s == "" {
		return netip.Addr{}
	}
	return netip.MustParseAddr(s)
}

func c20Opts(c c20Cfg) []corebgp.PeerOption {
	var o []corebgp.PeerOption
	if c.Local != "" {
		o = append(o, corebgp.WithLocalAddress(netip.MustParseAddr(c.Local)))
	}
	if c.Hold >= 0 {
		o = append(o, corebgp.WithHoldTime(uint16(c.Hold)))
	}
	if c.Port != -99 {
		o = append(o, corebgp.WithPort(c.Port))
	}
	if c.Passive {
		o = append(o, corebgp.WithPassive())
	}
	return o
}

func c20GridProp(c c20Cfg) hx.Verdict {
	remote := parseAddrOrZero(c.Remote)
	local := parseAddrOrZero(c.Local)
	odd := remote.IsValid() && (remote.Is4In6() || remote.Zone() != "")
	mustReject := !remote.IsValid() ||
		c.LocalAS == 0 || c.RemoteAS == 0 ||
		c.Hold == 1 || c.Hold == 2 ||
		(c.Port != -99 && (c.Port < 1 || c.Port > 65535))
	if local.IsValid() && remote.IsValid() && !odd && local.Is4() != remote.Is4() {
		mustReject = true
	}
	dontCare := odd && !mustReject
	why := []string{}
	if !remote.IsValid() {
		why = append(why, "remote")
	}
	if c.LocalAS == 0 || c.RemoteAS == 0 {
		why = append(why, "as0")
	}
	if c.Hold == 1 || c.Hold == 2 {
		why = append(why, "hold")
	}
	if c.Port != -99 && (c.Port < 1 || c.Port > 65535) {
		why = append(why, "port")
	}
	if local.IsValid() && remote.IsValid() && !odd && local.Is4() != remote.Is4() {
		why = append(why, "family")
	}
	v := hx.Verdict{Class: fmt.Sprintf("reject=%v/%s/odd=%v", mustReject, strings.Join(why, "+"), odd)}
	if !dontCare {
		v.NT = fmt.Sprintf("%+v", c)
	}
	srv, err := corebgp.NewServer(netip.MustParseAddr("10.0.0.1"))
	if err != nil {
		v.Dev = hx.Devf("newserver", "NewServer(10.0.0.1): %v", err)
		return v
	}
	pc := corebgp.PeerConfig{RemoteAddress: remote, LocalAS: c.LocalAS, RemoteAS: c.RemoteAS}
	err = srv.AddPeer(pc, nil, c20Opts(c)...)
	list := srv.ListPeers()
	_, gerr := srv.GetPeer(remote)
	if err != nil {
		if !mustReject && !dontCare {
			v.Dev = hx.Devf("rejects-valid-config", "AddPeer rejected a usable configuration %+v: %v", c, err)
			return v
		}
		if errors.Is(err, corebgp.ErrPeerAlreadyExists) {
			v.Dev = hx.Devf("wrong-error", "AddPeer on an empty server returned ErrPeerAlreadyExists")
			return v
		}
		if len(list) != 0 || !errors.Is(gerr, corebgp.ErrPeerNotExist) {
			v.Dev = hx.Devf("reject-side-effect", "rejected AddPeer left a trace: ListPeers has %d entries, GetPeer err=%v", len(list), gerr)
		}
		return v
	}
	if mustReject {
		key := "accepts-unusable-config"
		if len(why) == 1 && why[0] == "as0" && c.Local == "" {
			key = "as0-without-local-address"
		}
		v.Dev = hx.Devf(key, "AddPeer accepted a configuration that cannot yield a valid session (%s): %+v", strings.Join(why, "+"), c)
		return v
	}
	got, gerr := srv.GetPeer(remote)
	if gerr != nil || got != pc || len(list) != 1 || list[0] != pc {
		v.Dev = hx.Devf("map-inconsistent", "after AddPeer: GetPeer=(%+v,%v) ListPeers=%v", got, gerr, list)
		return v
	}
	if err := srv.AddPeer(pc, nil, c20Opts(c)...); !errors.Is(err, corebgp.ErrPeerAlreadyExists) || len(srv.ListPeers()) != 1 {
		v.Dev = hx.Devf("duplicate-add", "second AddPeer returned %v, ListPeers has %d", err, len(srv.ListPeers()))
		return v
	}
	if err := srv.DeletePeer(remote); err != nil {
		v.Dev = hx.Devf("delete", "DeletePeer of a present key: %v", err)
		return v
	}
	if err := srv.DeletePeer(remote); !errors.Is(err, corebgp.ErrPeerNotExist) || len(srv.ListPeers()) != 0 {
		v.Dev = hx.Devf("delete-missing", "DeletePeer of a missing key returned %v, ListPeers has %d", err, len(srv.ListPeers()))
	}
	return v
}

type c20RID struct {
	ID string `json:"id"`
}

func c20RIDProp(c c20RID) hx.Verdict {
	a := parseAddrOrZero(c.ID)
	v := hx.Verdict{Class: fmt.Sprintf("is4=%v", a.Is4())}
	srv, err := corebgp.NewServer(a)
	switch {
	case a.Is4():
		v.NT = c.ID
		if err != nil || srv == nil {
			v.Dev = hx.Devf("newserver-rejects-v4", "NewServer(%s): %v", c.ID, err)
		}
	case a.Is4In6():
		// an IPv4-mapped IPv6 address: not asserted
	default:
		v.NT = c.ID
		if err == nil {
			v.Dev = hx.Devf("newserver-accepts-non-v4", "NewServer(%q) succeeded", c.ID)
		}
	}
	return v
}

// ---- (b) sequential histories against the map model, around Serve/Close

var c20Keys = []string{"10.0.0.2", "10.0.0.3", "10.0.0.4", "2001:db8::2", "2001:db8::3", "10.0.0.5"}

type c20Op struct {
	Op      string `json:"op"` // add del get list serve close inbound advance
	Key     int    `json:"key"`
	AS      uint32 `json:"as,omitempty"`
	Passive bool   `json:"passive,omitempty"`
	Bad     string `json:"bad,omitempty"` // add: make the config invalid: "as0", "hold", "port", "family"
}

type c20Hist struct {
	Ops []c20Op `json:"ops"`
	// Listeners: Serve is given that many more (idle) listeners, around the one in use
	Listeners int `json:"listeners,omitempty"`
}

type c20Model struct {
	cfg     map[string]uint32 // key -> LocalAS
	passive map[string]bool
	serving bool
	closed  bool
}

func listString(l []corebgp.PeerConfig) string {
	var s []string
	for _, p := range l {
		s = append(s, fmt.Sprintf("%s:%d", p.RemoteAddress, p.LocalAS))
	}
	sort.Strings(s)
	return strings.Join(s, ",")
}

func (m *c20Model) listString() string {
	var s []string
	for k, as := range m.cfg {
		s = append(s, fmt.Sprintf("%s:%d", k, as))
	}
	sort.Strings(s)
	return strings.Join(s, ",")
}

func c20HistProp(t *testing.T, r *hx.Run) func(h c20Hist) hx.Verdict {
	return func(h c20Hist) hx.Verdict {
		r.SetCurrent("sequential_histories", h)
		v := hx.Verdict{}
		var dev *hx.Dev
		fail := func(key, f string, a ...any) {
			if dev == nil {
				dev = hx.Devf(key, f, a...)
			}
		}
		dupAdd, delPresent, phase := false, false, false
		o := world.Run(t, func() {
			w, err := world.New("10.0.0.1", nil)
			if err != nil {
				fail("setup", "%v", err)
				return
			}
			defer func() {
				if dev != nil {
					dev.Msg += "\n" + w.Dump()
				}
				w.Finish()
			}()
			m := &c20Model{cfg: map[string]uint32{}, passive: map[string]bool{}}
			specFor := func(op c20Op) world.PeerSpec {
				p := world.PeerSpec{Remote: c20Keys[op.Key], LocalAS: op.AS, RemoteAS: 64999, Passive: op.Passive, Hold: 90, IdleHoldMs: 1000}
				switch op.Bad {
				case "as0":
					p.LocalAS = 0
				case "hold":
					p.Hold = 2
				case "port":
					p.Port = 70000
				case "family":
					if p.RemoteAddr().Is4() {
						p.Local = "2001:db8::1"
					} else {
						p.Local = "10.0.0.1"
					}
				}
				return p
			}
			checkView := func(where string) {
				if got := listString(w.Srv.ListPeers()); got != m.listString() {
					fail("list-mismatch", "%s: ListPeers = {%s}, model = {%s}", where, got, m.listString())
				}
				for _, k := range c20Keys {
					got, err := w.Srv.GetPeer(netip.MustParseAddr(k))
					as, ok := m.cfg[k]
					if ok && (err != nil || got.LocalAS != as || got.RemoteAddress.String() != k) {
						fail("get-mismatch", "%s: GetPeer(%s) = (%+v, %v), model has LocalAS %d", where, k, got, err, as)
					}
					if !ok && !errors.Is(err, corebgp.ErrPeerNotExist) {
						fail("get-mismatch", "%s: GetPeer(%s) of a missing key returned err=%v", where, k, err)
					}
				}
			}
			// operating: an active peer dials, a present peer admits inbound, an absent one does not
			checkOperating := func(where string) {
				if !m.serving {
					return
				}
				before := len(w.Net.Dials())
				w.Advance(1500 * time.Millisecond) // > idle hold (1 s): every active peer redials
				dialed := map[string]bool{}
				for _, d := range w.Net.Dials()[before:] {
					dialed[d.Remote.String()] = true
				}
				for _, k := range c20Keys {
					_, present := m.cfg[k]
					wantDial := present && !m.passive[k]
					if dialed[k] != wantDial {
						fail("operating-dial", "%s: peer %s present=%v passive=%v, dial attempts in the last 1.5 s: %v", where, k, present, m.passive[k], dialed[k])
					}
					dst := "10.0.0.1"
					if !netip.MustParseAddr(k).Is4() {
						dst = "2001:db8::1"
					}
					c := w.Inbound(k, dst)
					w.Settle()
					st := c.Snapshot()
					gotOpen := len(st.Bytes()) > 0
					if present && !gotOpen {
						fail("operating-inbound", "%s: inbound connection from configured peer %s got no OPEN (closed=%v)", where, k, st.LocalClosed)
					}
					if !present && (gotOpen || !st.LocalClosed) {
						fail("operating-inbound", "%s: inbound connection from unconfigured %s: bytes=%d closed=%v", where, k, len(st.Bytes()), st.LocalClosed)
					}
					c.RemoteClose()
					w.Settle()
				}
			}
			for i, op := range h.Ops {
				where := fmt.Sprintf("after op %d %+v", i, op)
				key := c20Keys[op.Key]
				switch op.Op {
				case "add":
					err := w.AddPeer(specFor(op))
					_, exists := m.cfg[key]
					switch {
					case op.Bad != "":
						if err == nil {
							fail("accepts-unusable-config", "%s: invalid config (%s) accepted", where, op.Bad)
							return
						}
						if errors.Is(err, corebgp.ErrPeerAlreadyExists) && !exists {
							fail("wrong-error", "%s: ErrPeerAlreadyExists for a missing key", where)
						}
					case exists:
						dupAdd = true
						if !errors.Is(err, corebgp.ErrPeerAlreadyExists) {
							fail("duplicate-add", "%s: AddPeer of an existing key returned %v", where, err)
							return
						}
					default:
						if err != nil {
							fail("add-failed", "%s: %v", where, err)
							return
						}
						m.cfg[key] = op.AS
						m.passive[key] = op.Passive
					}
				case "del":
					_, exists := m.cfg[key]
					var err error
					ok, took := w.Call("DeletePeer", key, 10*time.Second, func() { err = w.Srv.DeletePeer(netip.MustParseAddr(key)) })
					if !ok {
						fail("delete-blocked", "%s: DeletePeer did not return within %v", where, took)
						return
					}
					if exists {
						delPresent = true
						if err != nil {
							fail("delete", "%s: DeletePeer of a present key: %v", where, err)
							return
						}
						delete(m.cfg, key)
						delete(m.passive, key)
					} else if !errors.Is(err, corebgp.ErrPeerNotExist) {
						fail("delete-missing", "%s: DeletePeer of a missing key returned %v", where, err)
						return
					}
				case "serve":
					if m.serving {
						continue // Serve twice is documented misuse
					}
					if m.closed {
						// Serve after Close returns ErrServerClosed at once
						var serr error
						ok, _ := w.Call("Serve(after close)", "", 5*time.Second, func() { serr = w.Srv.Serve(nil) })
						if !ok || !errors.Is(serr, corebgp.ErrServerClosed) {
							fail("serve-after-close", "%s: Serve after Close returned=%v err=%v", where, ok, serr)
							return
						}
						continue
					}
					phase = true
					w.ExtraListeners(h.Listeners)
					w.Serve()
					w.Settle()
					m.serving = true
				case "close":
					ok, took := w.Call("Close", "", 10*time.Second, w.Srv.Close)
					if !ok {
						fail("close-blocked", "%s: Close did not return within %v", where, took)
						return
					}
					if m.serving {
						phase = true
						w.Settle()
						ret, serr := w.ServeReturned()
						if !ret || !errors.Is(serr, corebgp.ErrServerClosed) {
							fail("serve-return", "%s: after Close Serve returned=%v err=%v", where, ret, serr)
							return
						}
					}
					m.serving = false
					m.closed = true
				case "list", "get":
				}
				w.Settle()
				checkView(where)
				if dev != nil {
					return
				}
				if op.Op == "add" || op.Op == "del" || op.Op == "serve" {
					checkOperating(where)
					if dev != nil {
						return
					}
				}
			}
		})
		if b := o.Bad(); b != "" {
			fail("wedge", "%s", b)
		}
		if dupAdd && delPresent && phase {
			v.NT = fmt.Sprintf("%+v", h.Ops)
		}
		v.Class = fmt.Sprintf("dup=%v/del=%v/phase=%v", dupAdd, delPresent, phase)
		v.Dev = dev
		return v
	}
}

func genC20Hist(rt *rapid.T) c20Hist {
	var h c20Hist
	h.Listeners = pick(rt, "listeners", 0, 0, 1, 2)
	n := rapid.IntRange(3, 24).Draw(rt, "nops")
	for i := 0; i < n; i++ {
		op := c20Op{Op: pick(rt, "op", "add", "add", "add", "del", "del", "get", "list", "serve", "close")}
		op.Key = rapid.IntRange(0, 3).Draw(rt, "key")
		if rapid.IntRange(0, 5).Draw(rt, "widekey") == 0 {
			op.Key = rapid.IntRange(0, len(c20Keys)-1).Draw(rt, "key6")
		}
		if op.Op == "add" {
			op.AS = uint32(rapid.IntRange(1, 5).Draw(rt, "as"))
			op.Passive = rapid.Bool().Draw(rt, "passive")
			if rapid.IntRange(0, 7).Draw(rt, "bad") == 0 {
				op.Bad = pick(rt, "badkind", "as0", "hold", "port", "family")
			}
		}
		if op.Op == "close" && rapid.IntRange(0, 2).Draw(rt, "keepopen") != 0 {
			op.Op = "get"
		}
		h.Ops = append(h.Ops, op)
	}
	return h
}

// ---- (c) concurrent histories, linearizability against the map model

type c20ConcOp struct {
	G   int    `json:"g"`
	Op  string `json:"op"` // add del get list
	Key int    `json:"key"`
	AS  uint32 `json:"as,omitempty"`
}

type c20Conc struct {
	Serving bool        `json:"serving"`
	Pre     []c20ConcOp `json:"pre,omitempty"` // applied sequentially first
	Ops     []c20ConcOp `json:"ops"`           // per goroutine, in order of appearance
	Gs      int         `json:"gs"`
}

type regIn struct {
	Op  string
	Key string
	AS  uint32
}

type regOut struct {
	Err  string // "", "exists", "notexist", "other"
	AS   uint32
	List string
}

// the sequential specification: state = "k:as,k:as" sorted
var regModel = porcupine.Model{
	Init: func() interface{} { return "" },
	Step: func(state, input, output interface{}) (bool, interface{}) {
		st := map[string]string{}
		if s := state.(string); s != "" {
			for _, kv := range strings.Split(s, ",") {
				i := strings.LastIndex(kv, ":")
				st[kv[:i]] = kv[i+1:]
			}
		}
		in, out := input.(regIn), output.(regOut)
		enc := func() string {
			var s []string
			for k, v := range st {
				s = append(s, k+":"+v)
			}
			sort.Strings(s)
			return strings.Join(s, ",")
		}
		_, has := st[in.Key]
		switch in.Op {
		case "add":
			if has {
				return out.Err == "exists", state
			}
			if out.Err != "" {
				return false, state
			}
			st[in.Key] = fmt.Sprint(in.AS)
			return true, enc()
		case "del":
			if !has {
				return out.Err == "notexist", state
			}
			if out.Err != "" {
				return false, state
			}
			delete(st, in.Key)
			return true, enc()
		case "get":
			if !has {
				return out.Err == "notexist", state
			}
			return out.Err == "" && fmt.Sprint(out.AS) == st[in.Key], state
		case "list":
			return out.List == state.(string), state
		}
		return false, state
	},
	DescribeOperation: func(input, output interface{}) string {
		return fmt.Sprintf("%+v -> %+v", input, output)
	},
}

func errClass(err error) string {
	switch {
	case err == nil:
		return ""
	case errors.Is(err, corebgp.ErrPeerAlreadyExists):
		return "exists"
	case errors.Is(err, corebgp.ErrPeerNotExist):
		return "notexist"
	}
	return "other"
}

func c20ConcProp(t *testing.T, r *hx.Run) func(c c20Conc) hx.Verdict {
	return func(c c20Conc) hx.Verdict {
		r.SetCurrent("concurrent_histories", c)
		v := hx.Verdict{Class: fmt.Sprintf("serving=%v/gs=%d", c.Serving, c.Gs)}
		var dev *hx.Dev
		fail := func(key, f string, a ...any) {
			if dev == nil {
				dev = hx.Devf(key, f, a...)
			}
		}
		// non-trivial: >= 2 calls on the same key from different goroutines, one of them a mutation
		type kk struct{ g, mut int }
		byKey := map[int][]kk{}
		for _, op := range c.Ops {
			m := 0
			if op.Op == "add" || op.Op == "del" {
				m = 1
			}
			byKey[op.Key] = append(byKey[op.Key], kk{op.G, m})
		}
		for _, l := range byKey {
			for i := range l {
				for j := range l {
					if l[i].g != l[j].g && l[i].mut == 1 {
						v.NT = fmt.Sprintf("%+v", c)
					}
				}
			}
		}
		o := world.Run(t, func() {
			w, err := world.New("10.0.0.1", nil)
			if err != nil {
				fail("setup", "%v", err)
				return
			}
			defer w.Finish()
			var clock atomic.Int64
			var mu sync.Mutex
			var ops []porcupine.Operation
			do := func(g int, op c20ConcOp) {
				key := c20Keys[op.Key]
				in := regIn{Op: op.Op, Key: key, AS: op.AS}
				var out regOut
				call := clock.Add(1)
				switch op.Op {
				case "add":
					err := w.AddPeer(world.PeerSpec{Remote: key, LocalAS: op.AS, RemoteAS: 64999, Hold: 90, Passive: op.Key%2 == 0})
					out.Err = errClass(err)
				case "del":
					out.Err = errClass(w.Srv.DeletePeer(netip.MustParseAddr(key)))
				case "get":
					pc, err := w.Srv.GetPeer(netip.MustParseAddr(key))
					out.Err = errClass(err)
					out.AS = pc.LocalAS
				case "list":
					out.List = listString(w.Srv.ListPeers())
				}
				ret := clock.Add(1)
				mu.Lock()
				ops = append(ops, porcupine.Operation{ClientId: g, Input: in, Call: call, Output: out, Return: ret})
				mu.Unlock()
			}
			for _, op := range c.Pre {
				do(0, op)
			}
			if c.Serving {
				w.Serve()
				w.Settle()
			}
			var wg sync.WaitGroup
			per := map[int][]c20ConcOp{}
			for _, op := range c.Ops {
				per[op.G] = append(per[op.G], op)
			}
			for g := 0; g < c.Gs; g++ {
				wg.Add(1)
				go func(g int) {
					defer wg.Done()
					for _, op := range per[g] {
						do(g+1, op)
					}
				}(g)
			}
			done := make(chan struct{})
			go func() { wg.Wait(); close(done) }()
			tm := time.NewTimer(60 * time.Second)
			select {
			case <-done:
				tm.Stop()
			case <-tm.C:
				fail("registry-call-blocked", "concurrent registry calls did not all return within 60 virtual seconds")
				return
			}
			w.Settle()
			res := porcupine.CheckOperations(regModel, ops)
			if !res {
				var sb strings.Builder
				sort.Slice(ops, func(i, j int) bool { return ops[i].Call < ops[j].Call })
				for _, op := range ops {
					fmt.Fprintf(&sb, "  g%d [%d,%d] %+v -> %+v\n", op.ClientId, op.Call, op.Return, op.Input, op.Output)
				}
				fail("not-linearizable", "the history of registry calls has no linearization against the map model:\n%s", sb.String())
			}
		})
		if b := o.Bad(); b != "" {
			fail("wedge", "%s", b)
		}
		v.Dev = dev
		return v
	}
}

func genC20Conc(rt *rapid.T) c20Conc {
	c := c20Conc{Serving: rapid.Bool().Draw(rt, "serving"), Gs: rapid.IntRange(2, 6).Draw(rt, "gs")}
	genOp := func(g int) c20ConcOp {
		op := c20ConcOp{G: g, Op: pick(rt, "op", "add", "add", "del", "del", "get", "list"), Key: rapid.IntRange(0, 2).Draw(rt, "key")}
		if op.Op == "add" {
			op.AS = uint32(rapid.IntRange(1, 9).Draw(rt, "as"))
		}
		return op
	}
	for i, n := 0, rapid.IntRange(0, 3).Draw(rt, "npre"); i < n; i++ {
		op := genOp(0)
		op.Op = "add"
		op.AS = uint32(rapid.IntRange(1, 9).Draw(rt, "preas"))
		c.Pre = append(c.Pre, op)
	}
	n := rapid.IntRange(2, 30).Draw(rt, "nops")
	for i := 0; i < n; i++ {
		c.Ops = append(c.Ops, genOp(rapid.IntRange(0, c.Gs-1).Draw(rt, "g")))
	}
	return c
}

func TestC20(t *testing.T) {
	r := hx.Start(t, "C20")
	defer r.Finish(t)

	hx.Enum(r, t, "router_ids", 0, iter.Seq[c20RID](func(yield func(c20RID) bool) {
		for _, id := range []string{"", "10.0.0.1", "0.0.0.0", "255.255.255.255", "224.0.0.1", "::1", "::", "2001:db8::1", "fe80::1%eth0", "::ffff:10.0.0.1"} {
			if !yield(c20RID{id}) {
				return
			}
		}
	}), c20RIDProp)

	remotes := []string{"", "10.0.0.2", "2001:db8::2", "fe80::2%eth0", "::ffff:10.0.0.2"}
	locals := []string{"", "10.0.0.1", "2001:db8::1"}
	ases := []uint32{0, 1, 65535, 65536, 4294967295}
	holds := []int{-1, 0, 1, 2, 3, 90, 65535}
	ports := []int{-99, -1, 0, 1, 179, 65535, 65536}
	hx.Enum(r, t, "config_grid", int64(len(remotes)*len(locals)*len(ases)*len(ases)*len(holds)*len(ports)*2), iter.Seq[c20Cfg](func(yield func(c20Cfg) bool) {
		for _, rem := range remotes {
			for _, loc := range locals {
				for _, las := range ases {
					for _, ras := range ases {
						for _, h := range holds {
							for _, p := range ports {
								for _, pas := range []bool{false, true} {
									if !yield(c20Cfg{rem, loc, las, ras, h, p, pas}) {
										return
									}
								}
							}
						}
					}
				}
			}
		}
	}), c20GridProp)

	// "a deleted peer stops as in C10": DeletePeer (also racing Close or another
	// DeletePeer while a callback dawdles) at every park point, judged by the
	// C10 post-conditions
	hx.Enum(r, t, "deleted_peer_stops", 0, func(yield func(c10Case) bool) {
		// the racing cases depend on the scheduler: the enumeration is repeated
		for rep := 0; rep < 4; rep++ {
			for _, park := range c10Parks {
				for _, late := range []bool{false, true} {
					if !yield(c10Case{Peers: []c10Peer{{Park: park}}, API: "del", Late: late}) {
						return
					}
				}
				for _, spin := range []string{"open", "est", "caps"} {
					for _, conc := range [][]c10Conc{
						{{Kind: "del", Peer: 0}},
						{{Kind: "open", Peer: 0, Dir: "in"}, {Kind: "open", Peer: 0, Dir: "out"}, {Kind: "del", Peer: 0}},
						{{Kind: "keepalive", Peer: 0, Dir: "in"}, {Kind: "keepalive", Peer: 0, Dir: "out"}, {Kind: "del", Peer: 0}},
					} {
						if !yield(c10Case{Peers: []c10Peer{{Park: park, SpinCb: spin, SpinUs: 2000}}, API: "close", Conc: conc}) {
							return
						}
					}
				}
			}
		}
	}, c10Prop(t, r, "deleted_peer_stops"))

	hx.Rapid(r, t, "sequential_histories", r.N(2500, 25000), genC20Hist, c20HistProp(t, r))
	hx.Rapid(r, t, "concurrent_histories", r.N(1500, 20000), genC20Conc, c20ConcProp(t, r))
}

var _ = memnet.Refuse
var _ = wire.TypeOpen
