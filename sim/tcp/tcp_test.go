//go:debug asynctimerchan=1

// Package tcp is the real-loopback engine: corebgp runs on real TCP sockets,
// in real time, with the timer-channel semantics the repository's own
// `go 1.21` line selects (asynctimerchan=1), and with no verification hook in
// use (the dial seam stays nil, so the real net.Dialer path runs). It covers
// what the bubble engine cannot: the dialer options, the address forms the
// kernel reports, and race detection without any harness-induced
// happens-before edge. Real time is slow and noisy, so only assertions that
// are robust to load are violations (a bad event observed, one-sided time
// bounds with wide margins); a liveness wait that times out is counted as
// inconclusive and never flagged.
package tcp

import (
	"bytes"
	"encoding/binary"
	"errors"
	"fmt"
	"io"
	"net"
	"net/netip"
	"os"
	"strconv"
	"strings"
	"sync"
	"sync/atomic"
	"syscall"
	"testing"
	"time"

	"github.com/jwhited/corebgp"
	"pgregory.net/rapid"

	"verif/sim/hx"
	"verif/sim/wire"
)

// cur records the case about to run, so that a crash of the process can be
// attributed to it by the driver.
func cur[C any](r *hx.Run, sub string, prop func(C) hx.Verdict) func(C) hx.Verdict {
	return func(c C) hx.Verdict {
		r.SetCurrent(sub, c)
		return prop(c)
	}
}

// ---------------------------------------------------------------- recorder / plugin

type ev struct {
	K    string
	Peer string
	At   time.Time
	Data []byte
}

type recorder struct {
	mu  sync.Mutex
	evs []ev
}

func (r *recorder) add(k, peer string, data []byte) {
	r.mu.Lock()
	defer r.mu.Unlock()
	r.evs = append(r.evs, ev{K: k, Peer: peer, At: time.Now(), Data: append([]byte(nil), data...)})
}

func (r *recorder) snapshot() []ev {
	r.mu.Lock()
	defer r.mu.Unlock()
	return append([]ev(nil), r.evs...)
}

func (r *recorder) count(k, peer string) int {
	n := 0
	for _, e := range r.snapshot() {
		if e.K == k && (peer == "" || e.Peer == peer) {
			n++
		}
	}
	return n
}

// waitFor polls until pred holds or the timeout passes.
func waitFor(d time.Duration, pred func() bool) bool {
	deadline := time.Now().Add(d)
	for time.Now().Before(deadline) {
		if pred() {
			return true
		}
		time.Sleep(2 * time.Millisecond)
	}
	return pred()
}

type plug struct {
	rec      *recorder
	writers  sync.Map // peer -> corebgp.UpdateMessageWriter (latest)
	onEst    func(peer string, w corebgp.UpdateMessageWriter)
	onUpd    func()
	updSleep time.Duration
	updNotif *corebgp.Notification // returned by the update handler (after updSleep)
}

func (p *plug) GetCapabilities(pc corebgp.PeerConfig) []corebgp.Capability {
	p.rec.add("caps", pc.RemoteAddress.String(), nil)
	return nil
}

func (p *plug) OnOpenMessage(pc corebgp.PeerConfig, id netip.Addr, caps []corebgp.Capability) *corebgp.Notification {
	p.rec.add("open", pc.RemoteAddress.String(), nil)
	return nil
}

func (p *plug) OnEstablished(pc corebgp.PeerConfig, w corebgp.UpdateMessageWriter) corebgp.UpdateMessageHandler {
	peer := pc.RemoteAddress.String()
	p.rec.add("est+", peer, nil)
	p.writers.Store(peer, w)
	if p.onEst != nil {
		p.onEst(peer, w)
	}
	p.rec.add("est-", peer, nil)
	return func(pc corebgp.PeerConfig, u []byte) *corebgp.Notification {
		if p.onUpd != nil {
			p.onUpd()
		}
		p.rec.add("upd", peer, u)
		if p.updSleep > 0 {
			time.Sleep(p.updSleep)
		}
		return p.updNotif
	}
}

func (p *plug) OnClose(pc corebgp.PeerConfig) {
	p.rec.add("close", pc.RemoteAddress.String(), nil)
}

// grammar checks est+/close alternation per peer.
func grammar(evs []ev) string {
	up := map[string]bool{}
	for _, e := range evs {
		switch e.K {
		case "est+":
			if up[e.Peer] {
				return fmt.Sprintf("peer %s: OnEstablished while a session is up", e.Peer)
			}
			up[e.Peer] = true
		case "close":
			if !up[e.Peer] {
				return fmt.Sprintf("peer %s: OnClose without a session", e.Peer)
			}
			up[e.Peer] = false
		case "upd":
			if !up[e.Peer] {
				return fmt.Sprintf("peer %s: UPDATE delivered outside a session", e.Peer)
			}
		}
	}
	return ""
}

// ---------------------------------------------------------------- fake speaker helpers

func readMsg(c net.Conn, d time.Duration) (typ uint8, body []byte, err error) {
	c.SetReadDeadline(time.Now().Add(d))
	h := make([]byte, wire.HeaderLen)
	if _, err = io.ReadFull(c, h); err != nil {
		return 0, nil, err
	}
	l := int(binary.BigEndian.Uint16(h[16:18]))
	if l < wire.HeaderLen || l > wire.MaxLen {
		return 0, nil, fmt.Errorf("bad length %d from corebgp", l)
	}
	body = make([]byte, l-wire.HeaderLen)
	if _, err = io.ReadFull(c, body); err != nil {
		return 0, nil, err
	}
	return h[18], body, nil
}

func dialFrom(src string, dst string, d time.Duration) (net.Conn, error) {
	la, err := net.ResolveTCPAddr("tcp", net.JoinHostPort(src, "0"))
	if err != nil {
		return nil, err
	}
	dl := net.Dialer{LocalAddr: la, Timeout: d}
	return dl.Dial("tcp", dst)
}

// handshake performs the remote side on an accepted or dialled connection:
// reads corebgp's OPEN, sends OPEN, reads KEEPALIVE, sends KEEPALIVE.
func handshake(c net.Conn, remoteAS uint32, hold uint16, id uint32) error {
	typ, _, err := readMsg(c, 3*time.Second)
	if err != nil || typ != wire.TypeOpen {
		return fmt.Errorf("waiting for OPEN: type %d err %v", typ, err)
	}
	if _, err := c.Write(wire.NewOpen(remoteAS, hold, id).Frame()); err != nil {
		return err
	}
	typ, _, err = readMsg(c, 3*time.Second)
	if err != nil || typ != wire.TypeKeepalive {
		return fmt.Errorf("waiting for KEEPALIVE: type %d err %v", typ, err)
	}
	_, err = c.Write(wire.Keepalive())
	return err
}

type server struct {
	srv  *corebgp.Server
	rec  *recorder
	plug *plug
	lis  []net.Listener
	done chan error
}

func newServer(routerID string, listen []string) (*server, error) {
	s := &server{rec: &recorder{}, done: make(chan error, 1)}
	s.plug = &plug{rec: s.rec}
	srv, err := corebgp.NewServer(netip.MustParseAddr(routerID))
	if err != nil {
		return nil, err
	}
	s.srv = srv
	for _, l := range listen {
		ln, err := net.Listen("tcp", l)
		if err != nil {
			for _, x := range s.lis {
				x.Close()
			}
			return nil, err
		}
		s.lis = append(s.lis, ln)
	}
	return s, nil
}

func (s *server) serve() {
	go func() { s.done <- s.srv.Serve(s.lis) }()
}

// closeBounded closes the server and reports whether Close and Serve returned
// within d.
func (s *server) closeBounded(d time.Duration) bool {
	ch := make(chan struct{})
	go func() { s.srv.Close(); close(ch) }()
	select {
	case <-ch:
	case <-time.After(d):
		return false
	}
	select {
	case <-s.done:
		return true
	case <-time.After(d):
		return false
	}
}

func portOf(l net.Listener) string {
	_, p, _ := net.SplitHostPort(l.Addr().String())
	return p
}

// Every process of a check uses its own 127.x.0.0/24 so that the ports of
// concurrently running shards never collide (a closed port reserved by one
// case cannot be taken by another process).
var ipBase = func() string {
	n, _ := strconv.Atoi(os.Getenv("VERIF_SHARD"))
	return fmt.Sprintf("127.%d.0.", 10+n%200)
}()

// addr maps the symbolic host names used in cases ("h1".."h10", "v6") to addresses.
func addr(sym string) string {
	if sym == "v6" {
		return "::1"
	}
	return ipBase + strings.TrimPrefix(sym, "h")
}

var haveV6 = func() bool {
	l, err := net.Listen("tcp", "[::1]:0")
	if err != nil {
		return false
	}
	l.Close()
	return true
}()

// ---------------------------------------------------------------- C13: real address forms

type c13Peer struct {
	Remote string `json:"remote"` // symbolic host: h2 h3 v6
	Local  string `json:"local,omitempty"`
}

type c13Case struct {
	Listen string    `json:"listen"` // h1 | any4 | any6 | v6
	Peers  []c13Peer `json:"peers"`
	Src    string    `json:"src"`
	Dst    string    `json:"dst"`
}

func listenAddr(sym string) string {
	switch sym {
	case "any4":
		return "0.0.0.0:0"
	case "any6":
		return "[::]:0"
	case "v6":
		return "[::1]:0"
	}
	return addr(sym) + ":0"
}

func c13Prop(c c13Case) hx.Verdict {
	v := hx.Verdict{}
	src := netip.MustParseAddr(addr(c.Src))
	dst := netip.MustParseAddr(addr(c.Dst))
	admit := false
	configured := false
	for _, p := range c.Peers {
		if netip.MustParseAddr(addr(p.Remote)) == src {
			configured = true
			if p.Local == "" || netip.MustParseAddr(addr(p.Local)) == dst {
				admit = true
			}
		}
	}
	v.Class = fmt.Sprintf("listen=%s/admit=%v/configured=%v", c.Listen, admit, configured)
	if configured {
		v.NT = fmt.Sprintf("%+v", c)
	}
	s, err := newServer("10.255.0.1", []string{listenAddr(c.Listen)})
	if err != nil {
		v.Class = "skipped-listen-failed"
		v.NT = ""
		return v
	}
	for i, p := range c.Peers {
		opts := []corebgp.PeerOption{corebgp.WithPassive()}
		if p.Local != "" {
			opts = append(opts, corebgp.WithLocalAddress(netip.MustParseAddr(addr(p.Local))))
		}
		if err := s.srv.AddPeer(corebgp.PeerConfig{RemoteAddress: netip.MustParseAddr(addr(p.Remote)), LocalAS: 64512, RemoteAS: uint32(64600 + i)}, s.plug, opts...); err != nil {
			v.Dev = hx.Devf("setup", "AddPeer(%+v): %v", p, err)
			s.closeBounded(5 * time.Second)
			return v
		}
	}
	s.serve()
	defer func() {
		if !s.closeBounded(20*time.Second) && v.Dev == nil {
			v.Dev = hx.Devf("close-blocked", "Server.Close did not return within 20 s")
		}
	}()
	conn, err := dialFrom(addr(c.Src), net.JoinHostPort(addr(c.Dst), portOf(s.lis[0])), 2*time.Second)
	if err != nil {
		v.Class += "/dial-failed"
		v.NT = ""
		return v
	}
	defer conn.Close()
	typ, _, rerr := readMsg(conn, 3*time.Second)
	switch {
	case admit:
		if rerr == nil && typ == wire.TypeOpen {
			return v
		}
		if errors.Is(rerr, io.EOF) {
			v.Dev = hx.Devf("not-served", "connection %s -> %s (listener %s) from a configured peer to an acceptable destination was closed without an OPEN", c.Src, c.Dst, c.Listen)
			return v
		}
		v.Class += "/inconclusive-timeout"
		v.NT = ""
	default:
		if rerr == nil {
			v.Dev = hx.Devf("bytes-on-refused", "connection %s -> %s (listener %s) must be refused, corebgp sent a message of type %d on it", c.Src, c.Dst, c.Listen, typ)
			return v
		}
		var ne net.Error
		if errors.As(rerr, &ne) && ne.Timeout() {
			// slow machine or a connection left open: only the second is a defect, and
			// real time cannot tell them apart at 3 s; ask again with a long deadline
			if _, _, rerr2 := readMsg(conn, 20*time.Second); rerr2 != nil {
				var ne2 net.Error
				if errors.As(rerr2, &ne2) && ne2.Timeout() {
					v.Dev = hx.Devf("refused-not-closed", "connection %s -> %s (listener %s) must be refused, it was still open after 23 s", c.Src, c.Dst, c.Listen)
				}
			} else {
				v.Dev = hx.Devf("bytes-on-refused", "connection %s -> %s (listener %s) must be refused, corebgp sent a message on it", c.Src, c.Dst, c.Listen)
			}
			return v
		}
		if n := s.rec.count("caps", ""); n != 0 {
			v.Dev = hx.Devf("callback-on-refused", "%d plugin callbacks ran for a refused connection", n)
		}
	}
	return v
}

func genC13(rt *rapid.T) c13Case {
	kinds := []string{"h1", "any4"}
	if haveV6 {
		kinds = append(kinds, "any6", "v6")
	}
	c := c13Case{Listen: kinds[rapid.IntRange(0, len(kinds)-1).Draw(rt, "listen")]}
	v6only := c.Listen == "v6"
	used := map[string]bool{}
	for i, n := 0, rapid.IntRange(1, 3).Draw(rt, "npeers"); i < n; i++ {
		var p c13Peer
		if v6only || (c.Listen == "any6" && rapid.IntRange(0, 3).Draw(rt, "v6peer") == 0) {
			p.Remote = "v6"
			if rapid.Bool().Draw(rt, "withlocal") {
				p.Local = "v6"
			}
		} else {
			p.Remote = []string{"h2", "h3"}[rapid.IntRange(0, 1).Draw(rt, "remote")]
			if rapid.Bool().Draw(rt, "withlocal") {
				p.Local = []string{"h1", "h10"}[rapid.IntRange(0, 1).Draw(rt, "local")]
			}
		}
		if used[p.Remote] {
			continue
		}
		used[p.Remote] = true
		c.Peers = append(c.Peers, p)
	}
	if v6only || (c.Listen == "any6" && used["v6"] && rapid.Bool().Draw(rt, "v6probe")) {
		c.Src, c.Dst = "v6", "v6"
		return c
	}
	c.Src = []string{"h2", "h3", "h4"}[rapid.IntRange(0, 2).Draw(rt, "src")]
	c.Dst = "h1"
	if c.Listen != "h1" && rapid.Bool().Draw(rt, "otherdst") {
		c.Dst = "h10"
	}
	return c
}

func TestTCPC13(t *testing.T) {
	r := hx.Start(t, "C13")
	defer r.Finish(t)
	hx.Rapid(r, t, "tcp_real_address_forms", r.N(60, 400), genC13, cur(r, "tcp_real_address_forms", c13Prop))
}

// ---------------------------------------------------------------- C11: the real dialer path

type c11Case struct {
	Local    string `json:"local,omitempty"` // WithLocalAddress: "", h5, h6
	IdleMs   int    `json:"idle_ms"`
	Refusals int    `json:"refusals"` // attempts to observe against a closed port
	Remote   string `json:"remote"`
}

func c11Prop(c c11Case) hx.Verdict {
	v := hx.Verdict{Class: fmt.Sprintf("local=%v", c.Local != ""), NT: fmt.Sprintf("%+v", c)}
	remoteIP := addr(c.Remote)
	// reserve a port on the remote address, then close it: connection refused
	ln, err := net.Listen("tcp", net.JoinHostPort(remoteIP, "0"))
	if err != nil {
		v.Class, v.NT = "skipped-listen-failed", ""
		return v
	}
	port := ln.Addr().(*net.TCPAddr).Port
	ln.Close()
	s, err := newServer("10.255.0.1", nil)
	if err != nil {
		v.Dev = hx.Devf("setup", "%v", err)
		return v
	}
	var mu sync.Mutex
	var controlAt []time.Time
	var controlAddrs []string
	idle := time.Duration(c.IdleMs) * time.Millisecond
	opts := []corebgp.PeerOption{corebgp.WithPort(port), corebgp.WithIdleHoldTime(idle), corebgp.WithConnectRetryTime(5 * time.Second)}
	if c.Local != "" {
		opts = append(opts, corebgp.WithLocalAddress(netip.MustParseAddr(addr(c.Local))))
	}
	opts = append(opts, corebgp.WithDialerControl(func(network, address string, rc syscall.RawConn) error {
		mu.Lock()
		controlAt = append(controlAt, time.Now())
		controlAddrs = append(controlAddrs, address)
		mu.Unlock()
		return nil
	}))
	if err := s.srv.AddPeer(corebgp.PeerConfig{RemoteAddress: netip.MustParseAddr(remoteIP), LocalAS: 64512, RemoteAS: 64513}, s.plug, opts...); err != nil {
		v.Dev = hx.Devf("setup", "%v", err)
		return v
	}
	s.serve()
	defer func() {
		if !s.closeBounded(20*time.Second) && v.Dev == nil {
			v.Dev = hx.Devf("close-blocked", "Server.Close did not return within 20 s")
		}
	}()
	// phase 1: refusals
	got := waitFor(time.Duration(c.Refusals+3)*idle+5*time.Second, func() bool {
		mu.Lock()
		defer mu.Unlock()
		return len(controlAt) >= c.Refusals
	})
	mu.Lock()
	at := append([]time.Time(nil), controlAt...)
	addrs := append([]string(nil), controlAddrs...)
	mu.Unlock()
	want := net.JoinHostPort(remoteIP, fmt.Sprint(port))
	for _, a := range addrs {
		if a != want {
			v.Dev = hx.Devf("wrong-dial-target", "corebgp dialled %s, configured remote %s port %d", a, remoteIP, port)
			return v
		}
	}
	if !got {
		v.Class += "/inconclusive-timeout"
		v.NT = ""
		return v
	}
	// one-sided pacing bound, robust to scheduling delays of the dial goroutines (the
	// timestamps are taken in the control callback, not where the FSM decides): four
	// refused attempts never fall within half an idle-hold time. On the unchanged code
	// three consecutive gaps add up to 3 x idle-hold minus at most one start-up delay; a
	// busy re-dial loop makes thousands of attempts per second. (Exact pacing is decided
	// in virtual time by the bubble engine.)
	for i := 3; i < len(at); i++ {
		if at[i].Sub(at[i-3]) < idle/2 {
			v.Dev = hx.Devf("busy-redial", "4 refused dial attempts within %v (idle-hold time %v): gaps %v", at[i].Sub(at[i-3]).Round(time.Millisecond), idle, gaps(at))
			return v
		}
	}
	// phase 2: the remote starts listening; check source address and establishment
	ln2, err := net.Listen("tcp", want)
	if err != nil {
		v.Class += "/port-taken"
		return v
	}
	defer ln2.Close()
	ln2.(*net.TCPListener).SetDeadline(time.Now().Add(5*idle + 5*time.Second))
	conn, err := ln2.Accept()
	if err != nil {
		v.Class += "/inconclusive-timeout"
		v.NT = ""
		return v
	}
	defer conn.Close()
	if c.Local != "" {
		if ip := conn.RemoteAddr().(*net.TCPAddr).IP.String(); ip != addr(c.Local) {
			v.Dev = hx.Devf("wrong-source-address", "WithLocalAddress(%s): the remote sees the connection coming from %s", addr(c.Local), ip)
			return v
		}
	}
	// (No count is demanded of the control callback beyond the attempts observed above: the
	// connection just accepted may be the last of those attempts, whose connect was still in
	// flight when the listener came up.)
	if err := handshake(conn, 64513, 90, 0x0a000002); err != nil {
		v.Class += "/inconclusive-handshake"
		v.NT = ""
		return v
	}
	if !waitFor(5*time.Second, func() bool { return s.rec.count("est+", "") == 1 }) {
		v.Class += "/inconclusive-timeout"
		v.NT = ""
	}
	return v
}

func gaps(at []time.Time) []time.Duration {
	var g []time.Duration
	for i := 1; i < len(at); i++ {
		g = append(g, at[i].Sub(at[i-1]).Round(time.Millisecond))
	}
	return g
}

func TestTCPC11(t *testing.T) {
	r := hx.Start(t, "C11")
	defer r.Finish(t)
	hx.Rapid(r, t, "tcp_real_dialer", r.N(6, 60), func(rt *rapid.T) c11Case {
		return c11Case{Local: []string{"", "h5", "h6"}[rapid.IntRange(0, 2).Draw(rt, "local")], IdleMs: []int{60, 100, 150}[rapid.IntRange(0, 2).Draw(rt, "idle")],
			Refusals: rapid.IntRange(4, 7).Draw(rt, "refusals"), Remote: []string{"h2", "h3"}[rapid.IntRange(0, 1).Draw(rt, "remote")]}
	}, cur(r, "tcp_real_dialer", c11Prop))
}

// ---------------------------------------------------------------- C06: hold timer with the repository's own timer-channel semantics

// One scenario: a session with a small hold time; the remote sends one UPDATE
// shortly before the hold deadline; the update handler
// takes HandlerMs, which may carry the FSM goroutine past that deadline (the
// timer then fires into its buffered channel while nobody listens). corebgp
// must restart the timer from the UPDATE, so no Hold Timer Expired may be
// seen earlier than the hold time after the handler was entered - a bound
// that holds whatever the machine load is, because delays only make corebgp's
// reset later.
type c06Scn struct {
	LocalHold  int    `json:"local_hold"`
	RemoteHold uint16 `json:"remote_hold"`
	UpdAtMs    int    `json:"upd_at_ms"`  // after the handshake KEEPALIVE
	HandlerMs  int    `json:"handler_ms"` // time the update handler takes
}

type c06Case struct {
	Scns []c06Scn `json:"scenarios"`
}

func (s c06Scn) H() time.Duration {
	return time.Duration(min(s.LocalHold, int(s.RemoteHold))) * time.Second
}

func runC06Scn(i int, sc c06Scn) (dev *hx.Dev, class string) {
	class = "ok"
	s, err := newServer("10.255.0.1", []string{addr("h1") + ":0"})
	if err != nil {
		return nil, "skipped-listen-failed"
	}
	remote := fmt.Sprintf("h%d", 20+i)
	var handlerAt atomic.Int64
	s.plug.updSleep = time.Duration(sc.HandlerMs) * time.Millisecond
	s.plug.onUpd = func() { handlerAt.CompareAndSwap(0, time.Now().UnixNano()) }
	if err := s.srv.AddPeer(corebgp.PeerConfig{RemoteAddress: netip.MustParseAddr(addr(remote)), LocalAS: 64512, RemoteAS: 64513}, s.plug,
		corebgp.WithPassive(), corebgp.WithHoldTime(uint16(sc.LocalHold))); err != nil {
		return hx.Devf("setup", "%v", err), class
	}
	s.serve()
	defer func() {
		if !s.closeBounded(20*time.Second) && dev == nil {
			dev = hx.Devf("close-blocked", "Server.Close did not return within 20 s")
		}
	}()
	conn, err := dialFrom(addr(remote), net.JoinHostPort(addr("h1"), portOf(s.lis[0])), 2*time.Second)
	if err != nil {
		return nil, "dial-failed"
	}
	defer conn.Close()
	if err := handshake(conn, 64513, sc.RemoteHold, 0x0a000002); err != nil {
		return nil, "inconclusive-handshake"
	}
	H := sc.H()
	t0 := time.Now()
	// reader: records every message corebgp sends, with its arrival time
	type rx struct {
		at  time.Time
		typ uint8
		n   wire.Notif
	}
	rxCh := make(chan rx, 64)
	go func() {
		defer close(rxCh)
		for {
			typ, body, err := readMsg(conn, 3*H+10*time.Second)
			if err != nil {
				return
			}
			m := rx{at: time.Now(), typ: typ}
			if typ == wire.TypeNotification {
				m.n, _ = wire.ParseNotif(body)
			}
			rxCh <- m
		}
	}()
	// the remote is silent after the handshake KEEPALIVE (the hold deadline is
	// t0+H) until the UPDATE
	updAt := time.Duration(sc.UpdAtMs) * time.Millisecond
	time.Sleep(time.Until(t0.Add(updAt)))
	if _, err := conn.Write(wire.Frame(wire.TypeUpdate, []byte{0, 0, 0, 0})); err != nil {
		return nil, "inconclusive-write"
	}
	// then silence: the expiry must come, and not before handlerAt + H
	var expiry *rx
	deadline := time.After(time.Duration(sc.HandlerMs)*time.Millisecond + 2*H + 10*time.Second)
loop:
	for {
		select {
		case m, ok := <-rxCh:
			if !ok {
				break loop
			}
			if m.typ == wire.TypeNotification {
				expiry = &m
				break loop
			}
		case <-deadline:
			break loop
		}
	}
	ha := handlerAt.Load()
	if ha == 0 {
		// the UPDATE never reached the handler: the session ended first (a late
		// machine: the hold timer legitimately won) - nothing to judge
		return nil, "inconclusive-update-not-handled"
	}
	if expiry == nil {
		return nil, "inconclusive-no-expiry-seen"
	}
	if expiry.n.Code != 4 {
		return hx.Devf("unexpected-notification", "scenario %+v: corebgp sent NOTIFICATION %v", sc, expiry.n), class
	}
	since := expiry.at.Sub(time.Unix(0, ha))
	if since < H {
		return hx.Devf("expired-early", "scenario %+v: the update handler was entered %v after establishment, Hold Timer Expired arrived only %v after that (hold time %v): the timer was not restarted by the UPDATE",
			sc, time.Unix(0, ha).Sub(t0).Round(time.Millisecond), since.Round(time.Millisecond), H), class
	}
	if time.Duration(sc.UpdAtMs+sc.HandlerMs)*time.Millisecond > H {
		class = "handler-crosses-deadline"
	}
	return nil, class
}

func c06Prop(c c06Case) hx.Verdict {
	v := hx.Verdict{}
	devs := make([]*hx.Dev, len(c.Scns))
	classes := make([]string, len(c.Scns))
	var wg sync.WaitGroup
	for i, sc := range c.Scns {
		wg.Add(1)
		go func() {
			defer wg.Done()
			devs[i], classes[i] = runC06Scn(i, sc)
		}()
	}
	wg.Wait()
	crossing := 0
	for i := range c.Scns {
		if devs[i] != nil && v.Dev == nil {
			v.Dev = devs[i]
		}
		if classes[i] == "handler-crosses-deadline" {
			crossing++
		}
	}
	v.Class = fmt.Sprintf("scenarios=%d/crossing>=1=%v", len(c.Scns), crossing >= 1)
	if crossing >= 1 {
		v.NT = fmt.Sprintf("%+v", c)
	}
	return v
}

// c06Reuse: two sessions in a row on corebgp's outbound FSM (one object for the life of the
// peer). In the first the update handler outlasts the hold time - the hold timer fires into
// its buffered channel while the FSM goroutine is in the plugin - and the session then ends
// without damping (the handler returns a Cease, or the remote has closed meanwhile). The
// second session, on a new connection, gets a KEEPALIVE every second: no Hold Timer Expired
// can arrive earlier than the hold time after our OPEN was written, whatever the load.
type c06Reuse struct {
	PastMs int    `json:"past_ms"` // the handler returns that long after the hold deadline
	End    string `json:"end"`     // handler-cease, fin
}

type c06ReuseCase struct {
	Scns []c06Reuse `json:"scenarios"`
}

func runC06Reuse(i int, sc c06Reuse) (dev *hx.Dev, class string) {
	const H = 3 * time.Second
	remote := fmt.Sprintf("h%d", 40+i)
	rl, err := net.Listen("tcp", addr(remote)+":0")
	if err != nil {
		return nil, "skipped-listen-failed"
	}
	defer rl.Close()
	rport := rl.Addr().(*net.TCPAddr).Port
	s, err := newServer("10.255.0.1", nil)
	if err != nil {
		return nil, "skipped-listen-failed"
	}
	s.plug.updSleep = H + time.Duration(sc.PastMs)*time.Millisecond
	if sc.End == "handler-cease" {
		s.plug.updNotif = &corebgp.Notification{Code: 6, Subcode: 2}
	}
	peer := netip.MustParseAddr(addr(remote))
	if err := s.srv.AddPeer(corebgp.PeerConfig{RemoteAddress: peer, LocalAS: 64512, RemoteAS: 64513}, s.plug,
		corebgp.WithPort(rport), corebgp.WithIdleHoldTime(30*time.Millisecond), corebgp.WithConnectRetryTime(300*time.Millisecond), corebgp.WithHoldTime(3)); err != nil {
		return hx.Devf("setup", "%v", err), "setup"
	}
	s.serve()
	defer func() {
		if !s.closeBounded(20*time.Second) && dev == nil {
			dev = hx.Devf("close-blocked", "Server.Close did not return within 20 s")
		}
	}()
	accept := func(d time.Duration) net.Conn {
		rl.(*net.TCPListener).SetDeadline(time.Now().Add(d))
		cn, err := rl.Accept()
		if err != nil {
			return nil
		}
		return cn
	}
	// exchange: read corebgp's OPEN, answer, read its KEEPALIVE, answer; returns when our OPEN was written
	exchange := func(cn net.Conn) (openAt time.Time, ok bool) {
		if typ, _, err := readMsg(cn, 2*time.Second); err != nil || typ != wire.TypeOpen {
			return openAt, false
		}
		openAt = time.Now()
		if _, err := cn.Write(wire.NewOpen(64513, 3, 0x0a000002).Frame()); err != nil {
			return openAt, false
		}
		if typ, _, err := readMsg(cn, 2*time.Second); err != nil || typ != wire.TypeKeepalive {
			return openAt, false
		}
		if _, err := cn.Write(wire.Keepalive()); err != nil {
			return openAt, false
		}
		return openAt, true
	}
	// session 1
	c1 := accept(3 * time.Second)
	if c1 == nil {
		return nil, "inconclusive-no-dial"
	}
	if _, ok := exchange(c1); !ok {
		c1.Close()
		return nil, "inconclusive-handshake"
	}
	c1.Write(wire.Frame(wire.TypeUpdate, []byte{0, 0, 0, 0}))
	if sc.End == "fin" {
		// the remote goes away while the handler is still busy, past the hold deadline
		time.Sleep(H + time.Duration(sc.PastMs/2)*time.Millisecond)
		c1.Close()
	} else {
		// wait for the handler's Cease (or whatever ends the session)
		for {
			if _, _, err := readMsg(c1, 2*H+5*time.Second); err != nil {
				break
			}
		}
		c1.Close()
	}
	// session 2, after the idle-hold time
	s.plug.updNotif = nil
	c2 := accept(s.plug.updSleep + 5*time.Second)
	if c2 == nil {
		return nil, "inconclusive-no-redial"
	}
	defer c2.Close()
	// second session: from our OPEN on, nothing may expire for a hold time
	if typ, _, err := readMsg(c2, 2*time.Second); err != nil || typ != wire.TypeOpen {
		return nil, "inconclusive-second-handshake"
	}
	openAt := time.Now()
	if _, err := c2.Write(wire.NewOpen(64513, 3, 0x0a000002).Frame()); err != nil {
		return nil, "inconclusive-second-handshake"
	}
	class = "second-session-observed"
	stopKA := make(chan struct{})
	defer close(stopKA)
	go func() {
		tk := time.NewTicker(time.Second)
		defer tk.Stop()
		for {
			select {
			case <-stopKA:
				return
			case <-tk.C:
				c2.Write(wire.Keepalive())
			}
		}
	}()
	for time.Since(openAt) < H {
		typ, body, err := readMsg(c2, H-time.Since(openAt)+10*time.Millisecond)
		if err != nil {
			break
		}
		switch typ {
		case wire.TypeKeepalive:
			if time.Since(openAt) < 500*time.Millisecond {
				c2.Write(wire.Keepalive()) // completes the handshake
			}
		case wire.TypeNotification:
			n, _ := wire.ParseNotif(body)
			if el := time.Since(openAt); n.Code == 4 && el < H-50*time.Millisecond {
				return hx.Devf("expired-early", "scenario %+v: second session on the outbound FSM: Hold Timer Expired arrived %v after our OPEN was written (hold time %v; a KEEPALIVE was sent every second)", sc, el.Round(time.Millisecond), H), class
			}
			return nil, class
		}
	}
	return nil, class
}

func c06ReuseProp(c c06ReuseCase) hx.Verdict {
	v := hx.Verdict{}
	devs := make([]*hx.Dev, len(c.Scns))
	classes := make([]string, len(c.Scns))
	var wg sync.WaitGroup
	for i, sc := range c.Scns {
		wg.Add(1)
		go func() {
			defer wg.Done()
			devs[i], classes[i] = runC06Reuse(i, sc)
		}()
	}
	wg.Wait()
	seen := 0
	for i := range c.Scns {
		if devs[i] != nil && v.Dev == nil {
			v.Dev = devs[i]
		}
		if classes[i] == "second-session-observed" {
			seen++
		}
	}
	v.Class = fmt.Sprintf("scenarios=%d/second-session-observed>=1=%v", len(c.Scns), seen >= 1)
	if seen >= 1 {
		v.NT = fmt.Sprintf("%+v", c)
	}
	return v
}

func TestTCPC06(t *testing.T) {
	r := hx.Start(t, "C06")
	defer r.Finish(t)
	hx.Rapid(r, t, "tcp_handler_crosses_deadline", r.N(2, 12), func(rt *rapid.T) c06Case {
		var c c06Case
		for i, n := 0, rapid.IntRange(4, 8).Draw(rt, "n"); i < n; i++ {
			sc := c06Scn{LocalHold: []int{3, 4, 90}[rapid.IntRange(0, 2).Draw(rt, "lh")], RemoteHold: []uint16{3, 4, 90}[rapid.IntRange(0, 2).Draw(rt, "rh")]}
			if sc.LocalHold == 90 && sc.RemoteHold == 90 {
				sc.RemoteHold = 3
			}
			h := int(sc.H() / time.Millisecond)
			sc.UpdAtMs = h - []int{300, 500, 900, 1500, 2500}[rapid.IntRange(0, 4).Draw(rt, "before")]
			sc.HandlerMs = []int{0, 200, 700, 1200, 2000}[rapid.IntRange(0, 4).Draw(rt, "handler")]
			if i%2 == 0 {
				// every other scenario is made to carry the handler past the deadline
				sc.HandlerMs = h - sc.UpdAtMs + []int{250, 600, 1500}[rapid.IntRange(0, 2).Draw(rt, "past")]
			}
			c.Scns = append(c.Scns, sc)
		}
		return c
	}, cur(r, "tcp_handler_crosses_deadline", c06Prop))
	hx.Rapid(r, t, "tcp_second_session_after_late_handler", r.N(1, 6), func(rt *rapid.T) c06ReuseCase {
		var c c06ReuseCase
		for i, n := 0, rapid.IntRange(4, 6).Draw(rt, "n"); i < n; i++ {
			c.Scns = append(c.Scns, c06Reuse{PastMs: []int{300, 600, 1200}[rapid.IntRange(0, 2).Draw(rt, "past")], End: []string{"handler-cease", "fin"}[i%2]})
		}
		return c
	}, cur(r, "tcp_second_session_after_late_handler", c06ReuseProp))
}

// ---------------------------------------------------------------- C03: delivery over real TCP with tiny writes

type c03Case struct {
	Lens  []int `json:"lens"`  // -1 keepalive, >=0 update body length
	Chunk int   `json:"chunk"` // write size (1 = byte by byte)
}

func c03Prop(c c03Case) hx.Verdict {
	v := hx.Verdict{Class: fmt.Sprintf("chunk=%d", c.Chunk)}
	nupd := 0
	for _, l := range c.Lens {
		if l >= 0 {
			nupd++
		}
	}
	if nupd >= 2 {
		v.NT = fmt.Sprintf("%+v", c)
	}
	s, err := newServer("10.255.0.1", []string{addr("h1") + ":0"})
	if err != nil {
		v.Class, v.NT = "skipped-listen-failed", ""
		return v
	}
	if err := s.srv.AddPeer(corebgp.PeerConfig{RemoteAddress: netip.MustParseAddr(addr("h2")), LocalAS: 64512, RemoteAS: 64513}, s.plug, corebgp.WithPassive()); err != nil {
		v.Dev = hx.Devf("setup", "%v", err)
		return v
	}
	s.serve()
	defer func() {
		if !s.closeBounded(20*time.Second) && v.Dev == nil {
			v.Dev = hx.Devf("close-blocked", "Server.Close did not return within 20 s")
		}
	}()
	conn, err := dialFrom(addr("h2"), net.JoinHostPort(addr("h1"), portOf(s.lis[0])), 2*time.Second)
	if err != nil {
		v.Class += "/dial-failed"
		return v
	}
	defer conn.Close()
	conn.(*net.TCPConn).SetNoDelay(true)
	if err := handshake(conn, 64513, 90, 0x0a000002); err != nil {
		v.Class += "/inconclusive-handshake"
		return v
	}
	var stream []byte
	var sent [][]byte
	for i, l := range c.Lens {
		if l < 0 {
			stream = append(stream, wire.Keepalive()...)
			continue
		}
		b := make([]byte, l)
		for j := range b {
			b[j] = byte(i*31 + j*7)
		}
		sent = append(sent, b)
		stream = append(stream, wire.Frame(wire.TypeUpdate, b)...)
	}
	for off := 0; off < len(stream); off += c.Chunk {
		end := min(off+c.Chunk, len(stream))
		if _, err := conn.Write(stream[off:end]); err != nil {
			v.Class += "/write-failed"
			return v
		}
	}
	if !waitFor(5*time.Second, func() bool { return s.rec.count("upd", "") >= len(sent) }) {
		v.Class += "/inconclusive-timeout"
		return v
	}
	time.Sleep(20 * time.Millisecond)
	var got [][]byte
	for _, e := range s.rec.snapshot() {
		if e.K == "upd" {
			got = append(got, e.Data)
		}
	}
	if len(got) != len(sent) {
		v.Dev = hx.Devf("delivery-count", "%d UPDATEs sent over real TCP in %d-byte writes, %d delivered", len(sent), c.Chunk, len(got))
		return v
	}
	for i := range sent {
		if !bytes.Equal(sent[i], got[i]) {
			v.Dev = hx.Devf("delivery-content", "UPDATE %d (%d bytes) delivered as %d bytes, content differs", i, len(sent[i]), len(got[i]))
			return v
		}
	}
	if g := grammar(s.rec.snapshot()); g != "" {
		v.Dev = hx.Devf("callback-grammar", "%s", g)
	}
	return v
}

func TestTCPC03(t *testing.T) {
	r := hx.Start(t, "C03")
	defer r.Finish(t)
	hx.Rapid(r, t, "tcp_tiny_writes", r.N(20, 200), func(rt *rapid.T) c03Case {
		c := c03Case{Chunk: []int{1, 1, 2, 7, 19, 100, 5000}[rapid.IntRange(0, 6).Draw(rt, "chunk")]}
		for i, n := 0, rapid.IntRange(1, 8).Draw(rt, "n"); i < n; i++ {
			c.Lens = append(c.Lens, []int{-1, 0, 1, 4, 19, 255, 256, 900}[rapid.IntRange(0, 7).Draw(rt, "len")])
		}
		return c
	}, cur(r, "tcp_tiny_writes", c03Prop))
}

// ---------------------------------------------------------------- C05 / C10: hostile streams and churn, also under -race

type churnSession struct {
	Dir     string `json:"dir"`     // in | out
	Upto    int    `json:"upto"`    // 0 connect only, 1 OPEN exchanged, 2 Established
	Updates int    `json:"updates"` // UPDATEs sent by the remote once Established
	Writes  int    `json:"writes"`  // WriteUpdate calls made locally once Established
	Garbage bool   `json:"garbage"` // end with random bytes instead of a close
	Cease   bool   `json:"cease"`   // end with a Cease NOTIFICATION
}

type churnCase struct {
	Sessions []churnSession `json:"sessions"`
	StopAt   int            `json:"stop_at"` // Close is called while session StopAt is in progress (-1: after all)
	Delete   bool           `json:"delete"`  // DeletePeer instead of Close for the stop
}

func churnProp(c churnCase) hx.Verdict {
	v := hx.Verdict{Class: fmt.Sprintf("sessions=%d/stop=%v", len(c.Sessions), c.StopAt >= 0)}
	if len(c.Sessions) >= 2 {
		v.NT = fmt.Sprintf("%+v", c)
	}
	// the remote's listener for corebgp's outbound dials
	rl, err := net.Listen("tcp", addr("h2")+":0")
	if err != nil {
		v.Class, v.NT = "skipped-listen-failed", ""
		return v
	}
	defer rl.Close()
	rport := rl.Addr().(*net.TCPAddr).Port
	s, err := newServer("10.255.0.1", []string{addr("h1") + ":0"})
	if err != nil {
		v.Class, v.NT = "skipped-listen-failed", ""
		return v
	}
	peer := netip.MustParseAddr(addr("h2"))
	if err := s.srv.AddPeer(corebgp.PeerConfig{RemoteAddress: peer, LocalAS: 64512, RemoteAS: 64513}, s.plug,
		corebgp.WithPort(rport), corebgp.WithIdleHoldTime(30*time.Millisecond), corebgp.WithConnectRetryTime(300*time.Millisecond), corebgp.WithHoldTime(3)); err != nil {
		v.Dev = hx.Devf("setup", "%v", err)
		return v
	}
	s.serve()
	// stop runs the stop under test once; every caller waits for it and gets its result
	var stopOnce sync.Once
	var stopOK bool
	stop := func() bool {
		stopOnce.Do(func() {
			if c.Delete {
				ch := make(chan struct{})
				go func() { s.srv.DeletePeer(peer); close(ch) }()
				select {
				case <-ch:
				case <-time.After(15 * time.Second):
					return
				}
			}
			stopOK = s.closeBounded(15 * time.Second)
		})
		return stopOK
	}
	// accepted outbound connections are queued here
	accepted := make(chan net.Conn, 16)
	go func() {
		for {
			cn, err := rl.Accept()
			if err != nil {
				return
			}
			select {
			case accepted <- cn:
			default:
				cn.Close()
			}
		}
	}()
	for si, ss := range c.Sessions {
		var conn net.Conn
		if ss.Dir == "out" {
			select {
			case conn = <-accepted:
			case <-time.After(2 * time.Second):
			}
		} else {
			conn, _ = dialFrom(addr("h2"), net.JoinHostPort(addr("h1"), portOf(s.lis[0])), time.Second)
		}
		if conn == nil {
			continue
		}
		if si == c.StopAt {
			go func() {
				time.Sleep(time.Duration(si%3) * time.Millisecond)
				stop()
			}()
		}
		func() {
			defer conn.Close()
			if ss.Upto >= 1 {
				typ, _, err := readMsg(conn, time.Second)
				if err != nil || typ != wire.TypeOpen {
					return
				}
				conn.Write(wire.NewOpen(64513, 3, 0x0a000002).Frame())
				if ss.Upto >= 2 {
					if typ, _, err = readMsg(conn, time.Second); err != nil || typ != wire.TypeKeepalive {
						return
					}
					conn.Write(wire.Keepalive())
					for k := 0; k < ss.Updates; k++ {
						conn.Write(wire.Frame(wire.TypeUpdate, []byte{0, 0, 0, 0, byte(k)}))
					}
					if ss.Writes > 0 && waitFor(time.Second, func() bool { _, ok := s.plug.writers.Load(peer.String()); return ok }) {
						w, _ := s.plug.writers.Load(peer.String())
						for k := 0; k < ss.Writes; k++ {
							w.(corebgp.UpdateMessageWriter).WriteUpdate([]byte{0, 0, 0, 0, byte(k)})
						}
					}
				}
			}
			switch {
			case ss.Garbage:
				conn.Write(bytes.Repeat([]byte{0x42}, 40))
			case ss.Cease:
				conn.Write(wire.Notif{Code: 6, Sub: 4}.Frame())
			}
			time.Sleep(2 * time.Millisecond)
		}()
		if ss.Garbage {
			break // the peer is damped for 60 s now
		}
	}
	// drain late dials
	go func() {
		for {
			select {
			case cn := <-accepted:
				cn.Close()
			case <-time.After(200 * time.Millisecond):
				return
			}
		}
	}()
	if !stop() {
		v.Dev = hx.Devf("stop-blocked", "Close/DeletePeer did not return within 15 s after the churn (stop during session %d)", c.StopAt)
		return v
	}
	evs := s.rec.snapshot()
	if g := grammar(evs); g != "" {
		v.Dev = hx.Devf("callback-grammar", "%s", g)
		return v
	}
	if e, cl := s.rec.count("est+", ""), s.rec.count("close", ""); e != cl {
		v.Dev = hx.Devf("onclose-missing", "after Close returned: %d OnEstablished, %d OnClose", e, cl)
	}
	return v
}

func genChurn(rt *rapid.T) churnCase {
	var c churnCase
	for i, n := 0, rapid.IntRange(1, 5).Draw(rt, "nsess"); i < n; i++ {
		c.Sessions = append(c.Sessions, churnSession{Dir: []string{"out", "out", "in"}[rapid.IntRange(0, 2).Draw(rt, "dir")], Upto: rapid.IntRange(0, 2).Draw(rt, "upto"),
			Updates: rapid.IntRange(0, 3).Draw(rt, "updates"), Writes: rapid.IntRange(0, 3).Draw(rt, "writes"),
			Garbage: rapid.IntRange(0, 7).Draw(rt, "garbage") == 0, Cease: rapid.Bool().Draw(rt, "cease")})
	}
	c.StopAt = rapid.IntRange(-1, len(c.Sessions)-1).Draw(rt, "stopat")
	c.Delete = rapid.Bool().Draw(rt, "delete")
	return c
}

func TestTCPC10(t *testing.T) {
	r := hx.Start(t, "C10")
	defer r.Finish(t)
	hx.Rapid(r, t, "tcp_churn", r.N(40, 500), genChurn, cur(r, "tcp_churn", churnProp))
	hx.Rapid(r, t, "tcp_stalled_reader", r.N(1, 4), genStall, cur(r, "tcp_stalled_reader", stallProp))
}

// ---------------------------------------------------------------- C08: a NOTIFICATION behind data the peer has not read yet

// The remote has a tiny receive buffer and does not read for a while; the plugin writes
// Updates x 4000 octets, which stay in corebgp's send queue. Then the remote sends a header
// with a bad marker and starts reading: the NOTIFICATION (1,1) is behind the UPDATEs and has to
// arrive - a connection reset before it shows up means corebgp's close threw the queued bytes
// away. Timeouts are inconclusive; only a reset (or an orderly end) without the NOTIFICATION is
// flagged.
type c08Slow struct {
	Updates int `json:"updates"`
	RcvBuf  int `json:"rcvbuf"`
	WaitMs  int `json:"wait_ms"` // between the last WriteUpdate and the faulty header
}

func c08SlowProp(c c08Slow) hx.Verdict {
	v := hx.Verdict{Class: "inconclusive"}
	s, err := newServer("10.255.0.1", []string{addr("h1") + ":0"})
	if err != nil {
		v.Class = "skipped-listen-failed"
		return v
	}
	remote := "h61"
	if err := s.srv.AddPeer(corebgp.PeerConfig{RemoteAddress: netip.MustParseAddr(addr(remote)), LocalAS: 64512, RemoteAS: 64513}, s.plug, corebgp.WithPassive()); err != nil {
		v.Dev = hx.Devf("setup", "%v", err)
		return v
	}
	s.serve()
	defer func() {
		if !s.closeBounded(20*time.Second) && v.Dev == nil {
			v.Dev = hx.Devf("close-blocked", "Server.Close did not return within 20 s")
		}
	}()
	la, _ := net.ResolveTCPAddr("tcp", net.JoinHostPort(addr(remote), "0"))
	dl := net.Dialer{LocalAddr: la, Timeout: 2 * time.Second, Control: func(network, address string, rc syscall.RawConn) error {
		return rc.Control(func(fd uintptr) {
			syscall.SetsockoptInt(int(fd), syscall.SOL_SOCKET, syscall.SO_RCVBUF, c.RcvBuf) // nolint: errcheck
		})
	}}
	conn, err := dl.Dial("tcp", net.JoinHostPort(addr("h1"), portOf(s.lis[0])))
	if err != nil {
		v.Class = "dial-failed"
		return v
	}
	defer conn.Close()
	if err := handshake(conn, 64513, 90, 0x0a000002); err != nil {
		v.Class = "inconclusive-handshake"
		return v
	}
	peer := netip.MustParseAddr(addr(remote)).String()
	if !waitFor(2*time.Second, func() bool { _, ok := s.plug.writers.Load(peer); return ok }) {
		v.Class = "inconclusive-no-writer"
		return v
	}
	wr, _ := s.plug.writers.Load(peer)
	wrote := make(chan int, 1)
	go func() {
		n := 0
		for k := 0; k < c.Updates; k++ {
			b := make([]byte, 4000)
			b[0] = byte(k)
			if wr.(corebgp.UpdateMessageWriter).WriteUpdate(b) != nil {
				break
			}
			n++
		}
		wrote <- n
	}()
	n := -1
	select {
	case n = <-wrote:
	case <-time.After(3 * time.Second):
	}
	if n != c.Updates {
		// the writers are stuck behind the closed window (or failed): another story (C10's stalled reader)
		v.Class = "inconclusive-writes-not-accepted"
		// let them go
		go func() {
			buf := make([]byte, 65536)
			for {
				conn.SetReadDeadline(time.Now().Add(5 * time.Second))
				if _, err := conn.Read(buf); err != nil {
					return
				}
			}
		}()
		return v
	}
	time.Sleep(time.Duration(c.WaitMs) * time.Millisecond)
	bad := wire.Keepalive()
	bad[3] = 0
	if _, err := conn.Write(bad); err != nil {
		v.Class = "inconclusive-write"
		return v
	}
	upd, sawNotif := 0, false
	var endErr error
	for {
		typ, body, err := readMsg(conn, 10*time.Second)
		if err != nil {
			endErr = err
			break
		}
		switch typ {
		case wire.TypeUpdate:
			upd++
		case wire.TypeNotification:
			if nf, _ := wire.ParseNotif(body); nf.Code == 1 && nf.Sub == 1 {
				sawNotif = true
			}
		}
		if sawNotif {
			break
		}
	}
	switch {
	case sawNotif:
		v.Class = "notification-behind-unread-data-seen"
		v.NT = fmt.Sprintf("%+v", c)
	case errors.Is(endErr, syscall.ECONNRESET) || errors.Is(endErr, io.EOF) || errors.Is(endErr, io.ErrUnexpectedEOF):
		v.Class = "notification-behind-unread-data-seen"
		v.NT = fmt.Sprintf("%+v", c)
		v.Dev = hx.Devf("notification-lost", "%d UPDATEs of 4000 octets were accepted by WriteUpdate while the peer (SO_RCVBUF %d) was not reading; after a header with a bad marker the peer read %d UPDATEs and then %v - the Connection Not Synchronized NOTIFICATION that corebgp wrote behind them never arrived", c.Updates, c.RcvBuf, upd, endErr)
	default:
		v.Class = "inconclusive-timeout"
	}
	return v
}

func TestTCPC08(t *testing.T) {
	r := hx.Start(t, "C08")
	defer r.Finish(t)
	hx.Rapid(r, t, "tcp_notification_behind_unread_data", r.N(3, 24), func(rt *rapid.T) c08Slow {
		return c08Slow{Updates: rapid.IntRange(4, 10).Draw(rt, "updates"), RcvBuf: []int{2048, 4096}[rapid.IntRange(0, 1).Draw(rt, "rcvbuf")], WaitMs: []int{20, 100, 300}[rapid.IntRange(0, 2).Draw(rt, "wait")]}
	}, cur(r, "tcp_notification_behind_unread_data", c08SlowProp))
}

func TestTCPC05(t *testing.T) {
	r := hx.Start(t, "C05")
	defer r.Finish(t)
	hx.Rapid(r, t, "tcp_churn", r.N(40, 500), genChurn, cur(r, "tcp_churn", churnProp))
}

// ---------------------------------------------------------------- C10: the stop while the remote is not reading

// The remote completes the handshake and then stops reading (a receive buffer
// of a few KB, so the window closes quickly); local WriteUpdate callers fill
// corebgp's send buffer until they block; then Close / DeletePeer is issued.
// "Return within bounded time whatever state each affected peer's connections
// are in ... while WriteUpdate callers are active" - the stop must return
// although nothing can be written. (Known finding on the pinned tree: it does
// not; see known_findings.json and DESIGN.md section 5.) Whatever happens, once
// the remote gives up and closes, the stop must return and the callback
// history must be complete.
type stallScn struct {
	Hold     int  `json:"hold"`      // local hold time (remote proposes 90)
	Writers  int  `json:"writers"`   // goroutines calling WriteUpdate
	BodyLen  int  `json:"body_len"`  // their body length
	WaitMs   int  `json:"wait_ms"`   // time between "all writers blocked" and the stop (a keepalive interval may pass)
	Delete   bool `json:"delete"`    // DeletePeer instead of Close
	RemoteKA bool `json:"remote_ka"` // the remote keeps sending KEEPALIVEs while not reading
}

type stallCase struct {
	Scns []stallScn `json:"scenarios"`
}

const stallStopBound = 15 * time.Second

func runStallScn(i int, sc stallScn) (dev *hx.Dev, class string) {
	s, err := newServer("10.255.0.1", []string{addr("h1") + ":0"})
	if err != nil {
		return nil, "skipped-listen-failed"
	}
	remote := fmt.Sprintf("h%d", 40+i)
	peer := netip.MustParseAddr(addr(remote))
	if err := s.srv.AddPeer(corebgp.PeerConfig{RemoteAddress: peer, LocalAS: 64512, RemoteAS: 64513}, s.plug,
		corebgp.WithPassive(), corebgp.WithHoldTime(uint16(sc.Hold))); err != nil {
		return hx.Devf("setup", "%v", err), ""
	}
	s.serve()
	la, _ := net.ResolveTCPAddr("tcp", net.JoinHostPort(addr(remote), "0"))
	d := net.Dialer{LocalAddr: la, Timeout: 2 * time.Second, Control: func(n, a string, c syscall.RawConn) error {
		return c.Control(func(fd uintptr) { syscall.SetsockoptInt(int(fd), syscall.SOL_SOCKET, syscall.SO_RCVBUF, 4096) })
	}}
	conn, err := d.Dial("tcp", net.JoinHostPort(addr("h1"), portOf(s.lis[0])))
	if err != nil {
		s.closeBounded(20 * time.Second)
		return nil, "dial-failed"
	}
	remoteClosed := false
	defer func() {
		if !remoteClosed {
			conn.Close()
		}
	}()
	if err := handshake(conn, 64513, 90, 0x0a000002); err != nil {
		s.closeBounded(20 * time.Second)
		return nil, "inconclusive-handshake"
	}
	if !waitFor(5*time.Second, func() bool { _, ok := s.plug.writers.Load(peer.String()); return ok }) {
		s.closeBounded(20 * time.Second)
		return nil, "inconclusive-timeout"
	}
	wv, _ := s.plug.writers.Load(peer.String())
	w := wv.(corebgp.UpdateMessageWriter)
	stopKA := make(chan struct{})
	defer close(stopKA)
	if sc.RemoteKA {
		go func() {
			tk := time.NewTicker(time.Second)
			defer tk.Stop()
			for {
				select {
				case <-stopKA:
					return
				case <-tk.C:
					conn.SetWriteDeadline(time.Now().Add(time.Second))
					conn.Write(wire.Keepalive())
				}
			}
		}()
	}
	// the remote does not read from here on
	var written atomic.Int64
	var wwg sync.WaitGroup
	for g := 0; g < sc.Writers; g++ {
		wwg.Add(1)
		go func() {
			defer wwg.Done()
			b := make([]byte, sc.BodyLen)
			for {
				if err := w.WriteUpdate(b); err != nil {
					return
				}
				written.Add(1)
			}
		}()
	}
	last, still := int64(-1), 0
	stalled := waitFor(20*time.Second, func() bool {
		time.Sleep(100 * time.Millisecond)
		if k := written.Load(); k == last {
			still++
		} else {
			last, still = k, 0
		}
		return still >= 4
	})
	if !stalled {
		conn.Close()
		remoteClosed = true
		s.closeBounded(20 * time.Second)
		return nil, "inconclusive-not-stalled"
	}
	time.Sleep(time.Duration(sc.WaitMs) * time.Millisecond)
	stopDone := make(chan struct{})
	go func() {
		if sc.Delete {
			s.srv.DeletePeer(peer)
		} else {
			s.srv.Close()
		}
		close(stopDone)
	}()
	blocked := false
	select {
	case <-stopDone:
	case <-time.After(stallStopBound):
		blocked = true
	}
	// the remote gives up: with unread data in its buffer this resets the connection
	conn.Close()
	remoteClosed = true
	select {
	case <-stopDone:
	case <-time.After(20 * time.Second):
		return hx.Devf("stop-blocked-after-remote-reset", "scenario %+v: the stop had not returned 20 s after the remote closed its end", sc), "blocked"
	}
	if sc.Delete {
		if !s.closeBounded(20 * time.Second) {
			return hx.Devf("close-blocked", "scenario %+v: Close did not return within 20 s after DeletePeer had returned", sc), "blocked"
		}
	} else {
		select {
		case <-s.done:
		case <-time.After(20 * time.Second):
			return hx.Devf("serve-not-returned", "scenario %+v: Serve did not return after Close", sc), "blocked"
		}
	}
	wdone := make(chan struct{})
	go func() { wwg.Wait(); close(wdone) }()
	select {
	case <-wdone:
	case <-time.After(10 * time.Second):
		return hx.Devf("writer-blocked", "scenario %+v: WriteUpdate callers are still blocked 10 s after the stop returned", sc), "blocked"
	}
	evs := s.rec.snapshot()
	if g := grammar(evs); g != "" {
		return hx.Devf("callback-grammar", "scenario %+v: %s", sc, g), ""
	}
	if e, cl := s.rec.count("est+", ""), s.rec.count("close", ""); e != cl {
		return hx.Devf("onclose-missing", "scenario %+v: after the stop returned: %d OnEstablished, %d OnClose", sc, e, cl), ""
	}
	if blocked {
		return hx.Devf("stop-blocked-by-stalled-reader", "scenario %+v: %d UPDATEs written, then all %d WriteUpdate callers blocked (the remote is not reading); %s did not return within %v, it returned only after the remote closed its end",
			sc, last, sc.Writers, map[bool]string{true: "DeletePeer", false: "Close"}[sc.Delete], stallStopBound), "blocked"
	}
	return nil, "returned"
}

func stallProp(c stallCase) hx.Verdict {
	v := hx.Verdict{}
	devs := make([]*hx.Dev, len(c.Scns))
	classes := make([]string, len(c.Scns))
	var wg sync.WaitGroup
	for i, sc := range c.Scns {
		wg.Add(1)
		go func() {
			defer wg.Done()
			devs[i], classes[i] = runStallScn(i, sc)
		}()
	}
	wg.Wait()
	judged := 0
	for i := range c.Scns {
		if classes[i] == "blocked" || classes[i] == "returned" {
			judged++
		}
		// an unlisted deviation takes precedence over the known one
		if devs[i] != nil && (v.Dev == nil || v.Dev.Key == "stop-blocked-by-stalled-reader") {
			v.Dev = devs[i]
		}
	}
	v.Class = fmt.Sprintf("scenarios=%d/judged=%d", len(c.Scns), judged)
	if judged >= 1 {
		v.NT = fmt.Sprintf("%+v", c)
	}
	return v
}

func genStall(rt *rapid.T) stallCase {
	var c stallCase
	for i, n := 0, rapid.IntRange(3, 5).Draw(rt, "n"); i < n; i++ {
		c.Scns = append(c.Scns, stallScn{Hold: []int{3, 0, 90}[rapid.IntRange(0, 2).Draw(rt, "hold")], Writers: rapid.IntRange(1, 3).Draw(rt, "writers"),
			BodyLen: []int{4000, 1000, 4077}[rapid.IntRange(0, 2).Draw(rt, "len")], WaitMs: []int{0, 1500}[rapid.IntRange(0, 1).Draw(rt, "wait")],
			Delete: rapid.Bool().Draw(rt, "delete"), RemoteKA: rapid.Bool().Draw(rt, "rka")})
	}
	return c
}
