package probe
import (
 "testing"
 "testing/synctest"
 "time"
 "sync/atomic"
 "fmt"
)
func TestZeroTimer(t *testing.T){
  miss:=0
  for i:=0;i<2000;i++{
  synctest.Test(t, func(t *testing.T){
      var flag atomic.Bool
      go func(){ <-time.NewTimer(0).C; flag.Store(true) }()
      synctest.Wait()
      if !flag.Load() { miss++ }
  })
  }
  fmt.Println("zero-timer not fired after Wait:", miss, "of 2000")
}
func runBubble(t *testing.T, f func()) (p any) {
  defer func(){ p = recover() }()
  synctest.Test(t, func(t *testing.T){ f() })
  return nil
}
func TestDeadlock(t *testing.T){
  p := runBubble(t, func(){ ch:=make(chan int); go func(){ <-ch }() })
  fmt.Printf("leak: %v\n", p)
  p = runBubble(t, func(){ ch:=make(chan int); <-ch })
  fmt.Printf("deadlock: %v\n", p)
  p = runBubble(t, func(){ time.Sleep(time.Hour) })
  fmt.Printf("fine: %v failed=%v\n", p, t.Failed())
}
