package wire

import (
	"encoding/binary"
	"fmt"
)

// ---------------------------------------------------------------- C16: partition

// PartEvent is one expected callback of UpdateDecoder.Decode.
type PartEvent struct {
	Kind  string // "wr", "attr", "nlri"
	Type  uint8
	Flags uint8
	Val   []byte
}

func (e PartEvent) String() string {
	if e.Kind == "attr" {
		return fmt.Sprintf("attr(type=%d,flags=%#02x,%d bytes %x)", e.Type, e.Flags, len(e.Val), clipb(e.Val))
	}
	return fmt.Sprintf("%s(%d bytes %x)", e.Kind, len(e.Val), clipb(e.Val))
}

func clipb(b []byte) []byte {
	if len(b) > 24 {
		return b[:24]
	}
	return b
}

// Partition is the reference decomposition of an UPDATE body (RFC 4271 4.3,
// RFC 7606 sections 3-5).
type Partition struct {
	// Abort is non-empty when a length field overruns the message or the
	// body is shorter than 4 bytes: decoding aborts before any callback.
	Abort string
	// Events in order: withdrawn, attributes passed on, NLRI (absent after a
	// repeated MP attribute).
	Events []PartEvent
	// DupMP: a repeated MP_REACH_NLRI / MP_UNREACH_NLRI aborted decoding at
	// that attribute (no further attribute, no NLRI callback).
	DupMP bool
	// Overrun: an attribute header or value overran the attribute block;
	// attribute iteration ended there, NLRI still delivered.
	Overrun bool
	// Ambiguous: the attribute that overruns is recognisably a repeated MP
	// attribute; both clauses apply and either outcome is acceptable. Alt is
	// then the other acceptable event list (the DupMP reading).
	Ambiguous bool
	Alt       []PartEvent
	// Seen is the set of attribute types passed on.
	Seen [256]bool
	// NAttrs is the number of attributes present (passed on or suppressed).
	NAttrs    int
	NDup      int
	NExtLen   int
	Withdrawn []byte
	NLRI      []byte
}

// PartitionUpdate computes the expected callback trace for an UPDATE body.
func PartitionUpdate(b []byte) Partition {
	var p Partition
	if len(b) < 4 {
		p.Abort = "shorter than 4 bytes"
		return p
	}
	wrl := int(binary.BigEndian.Uint16(b[0:2]))
	if 2+wrl+2 > len(b) {
		p.Abort = "withdrawn routes length overruns the message"
		return p
	}
	pal := int(binary.BigEndian.Uint16(b[2+wrl : 4+wrl]))
	if 4+wrl+pal > len(b) {
		p.Abort = "total path attribute length overruns the message"
		return p
	}
	p.Withdrawn = b[2 : 2+wrl]
	p.NLRI = b[4+wrl+pal:]
	p.Events = append(p.Events, PartEvent{Kind: "wr", Val: p.Withdrawn})
	a := b[4+wrl : 4+wrl+pal]
	for len(a) > 0 {
		// is this recognisably a repeated MP attribute?
		dupMPHere := len(a) >= 2 && (a[1] == 14 || a[1] == 15) && p.Seen[a[1]]
		overrun := false
		var hdr, alen int
		if len(a) < 2 {
			overrun = true
		} else {
			hdr = 3
			if a[0]&0x10 != 0 {
				hdr = 4
			}
			if len(a) < hdr {
				overrun = true
			} else {
				if hdr == 4 {
					alen = int(binary.BigEndian.Uint16(a[2:4]))
				} else {
					alen = int(a[2])
				}
				if len(a)-hdr < alen {
					overrun = true
				}
			}
		}
		if overrun {
			p.Overrun = true
			if dupMPHere {
				p.Ambiguous = true
				p.Alt = append([]PartEvent(nil), p.Events...)
			}
			break
		}
		p.NAttrs++
		if hdr == 4 {
			p.NExtLen++
		}
		typ := a[1]
		if p.Seen[typ] {
			p.NDup++
			if typ == 14 || typ == 15 {
				p.DupMP = true
				return p
			}
			a = a[hdr+alen:]
			continue
		}
		p.Seen[typ] = true
		p.Events = append(p.Events, PartEvent{Kind: "attr", Type: typ, Flags: a[0], Val: a[hdr : hdr+alen]})
		a = a[hdr+alen:]
	}
	p.Events = append(p.Events, PartEvent{Kind: "nlri", Val: p.NLRI})
	return p
}

// AnnouncesRoutes: non-empty NLRI or an MP_REACH_NLRI attribute passed on.
func (p Partition) AnnouncesRoutes() bool { return len(p.NLRI) > 0 || p.Seen[14] }

// ---------------------------------------------------------------- C18: attribute table

// AttrRule is the acceptance rule of one typed attribute decoder.
type AttrRule struct {
	Name       string
	Code       uint8
	Optional   bool
	Transitive bool
	// Discard: a malformed value is handled by attribute-discard (else
	// treat-as-withdraw). Flag conflicts are always treat-as-withdraw.
	Discard bool
}

var AttrRules = []AttrRule{
	{"ORIGIN", 1, false, true, false},
	{"AS_PATH", 2, false, true, false},
	{"NEXT_HOP", 3, false, true, false},
	{"MULTI_EXIT_DISC", 4, true, false, false},
	{"LOCAL_PREF", 5, false, true, false},
	{"ATOMIC_AGGREGATE", 6, false, true, true},
	{"AGGREGATOR", 7, true, true, true},
	{"COMMUNITIES", 8, true, true, false},
	{"ORIGINATOR_ID", 9, true, false, false},
	{"CLUSTER_LIST", 10, true, false, false},
	{"LARGE_COMMUNITIES", 32, true, true, false},
}

// FlagsOK: Optional (bit 7) and Transitive (bit 6) are as the RFC assigns.
func (r AttrRule) FlagsOK(flags uint8) bool {
	return (flags&0x80 != 0) == r.Optional && (flags&0x40 != 0) == r.Transitive
}

// ValueFault returns "" if the value satisfies the attribute's RFC rule,
// else the kind of fault: "length", "origin-value", "aspath". dontCare is set
// for AS_PATH values containing confederation segment types (3, 4), about
// which the statement is silent.
func (r AttrRule) ValueFault(v []byte) (fault string, dontCare bool) {
	switch r.Code {
	case 1:
		if len(v) != 1 {
			return "length", false
		}
		if v[0] > 2 {
			return "origin-value", false
		}
	case 2:
		return asPathFault(v)
	case 3, 4, 5, 9:
		if len(v) != 4 {
			return "length", false
		}
	case 6:
		if len(v) != 0 {
			return "length", false
		}
	case 7:
		if len(v) != 8 {
			return "length", false
		}
	case 8, 10:
		if len(v) == 0 || len(v)%4 != 0 {
			return "length", false
		}
	case 32:
		if len(v) == 0 || len(v)%12 != 0 {
			return "length", false
		}
	}
	return "", false
}

// ASPathRef is the reference decode of an AS_PATH with 4-octet AS numbers.
type ASPathRef struct {
	Set              []uint32 // all AS numbers of AS_SET segments, in wire order
	Sequence         []uint32 // all AS numbers of AS_SEQUENCE segments, in wire order
	Segments         int
	SameTypeRepeated bool
}

// ParseASPath parses segments: type(1) count(1) count*4 octets. RFC 7606 7.2:
// malformed on unknown segment type, overrun, a single trailing octet, or a
// zero segment length.
func ParseASPath(v []byte) (ASPathRef, string, bool) {
	var r ASPathRef
	dontCare := false
	seenType := map[uint8]bool{}
	for len(v) > 0 {
		if len(v) < 2 {
			return r, "aspath", dontCare
		}
		typ, cnt := v[0], int(v[1])
		if typ == 3 || typ == 4 {
			dontCare = true
		}
		if typ < 1 || typ > 4 {
			return r, "aspath", dontCare
		}
		if cnt == 0 {
			return r, "aspath", dontCare
		}
		if len(v)-2 < cnt*4 {
			return r, "aspath", dontCare
		}
		if seenType[typ] {
			r.SameTypeRepeated = true
		}
		seenType[typ] = true
		r.Segments++
		for i := 0; i < cnt; i++ {
			as := binary.BigEndian.Uint32(v[2+4*i:])
			switch typ {
			case 1:
				r.Set = append(r.Set, as)
			case 2:
				r.Sequence = append(r.Sequence, as)
			}
		}
		v = v[2+cnt*4:]
	}
	return r, "", dontCare
}

func asPathFault(v []byte) (string, bool) {
	_, f, dc := ParseASPath(v)
	return f, dc
}

// ---------------------------------------------------------------- C19: prefixes

// Pfx is one (path id,) prefix as encoded.
type Pfx struct {
	ID   uint32 // add-path only
	Bits int
	Addr []byte // (Bits+7)/8 octets as on the wire
}

// EncodePrefixes encodes a list of prefixes (RFC 4271 4.3 / RFC 7911 3).
func EncodePrefixes(ps []Pfx, addPath bool) []byte {
	var b []byte
	for _, p := range ps {
		if addPath {
			b = binary.BigEndian.AppendUint32(b, p.ID)
		}
		b = append(b, uint8(p.Bits))
		b = append(b, p.Addr...)
	}
	return b
}

// ParsePrefixes is the reference decoder: ok=false when a length octet
// exceeds the family maximum or the field ends inside an entry.
func ParsePrefixes(b []byte, ipv6, addPath bool) (ps []Pfx, ok bool) {
	max := 32
	if ipv6 {
		max = 128
	}
	for len(b) > 0 {
		var p Pfx
		if addPath {
			if len(b) < 4 {
				return nil, false
			}
			p.ID = binary.BigEndian.Uint32(b)
			b = b[4:]
			if len(b) < 1 {
				return nil, false
			}
		}
		p.Bits = int(b[0])
		if p.Bits > max {
			return nil, false
		}
		n := (p.Bits + 7) / 8
		if len(b)-1 < n {
			return nil, false
		}
		p.Addr = append([]byte{}, b[1:1+n]...)
		b = b[1+n:]
		ps = append(ps, p)
	}
	return ps, true
}

// SameBits reports whether the first bits bits of a and b agree (a, b are
// big-endian address bytes, possibly of different lengths: missing octets
// count as zero).
func SameBits(a, b []byte, bits int) bool {
	at := func(x []byte, i int) byte {
		if i < len(x) {
			return x[i]
		}
		return 0
	}
	full := bits / 8
	for i := 0; i < full; i++ {
		if at(a, i) != at(b, i) {
			return false
		}
	}
	if r := bits % 8; r != 0 {
		mask := byte(0xFF << (8 - r))
		if at(a, full)&mask != at(b, full)&mask {
			return false
		}
	}
	return true
}

// MPReach is the reference split of an MP_REACH_NLRI value (RFC 4760 3).
type MPReach struct {
	OK      bool
	AFI     uint16
	SAFI    uint8
	NextHop []byte
	NLRI    []byte
}

func SplitMPReach(b []byte) MPReach {
	if len(b) < 5 {
		return MPReach{}
	}
	nh := int(b[3])
	if len(b) < 4+nh+1 {
		return MPReach{}
	}
	return MPReach{OK: true, AFI: binary.BigEndian.Uint16(b), SAFI: b[2], NextHop: b[4 : 4+nh], NLRI: b[4+nh+1:]}
}

// MPUnreach is the reference split of an MP_UNREACH_NLRI value.
type MPUnreach struct {
	OK        bool
	AFI       uint16
	SAFI      uint8
	Withdrawn []byte
}

func SplitMPUnreach(b []byte) MPUnreach {
	if len(b) < 3 {
		return MPUnreach{}
	}
	return MPUnreach{OK: true, AFI: binary.BigEndian.Uint16(b), SAFI: b[2], Withdrawn: b[3:]}
}
