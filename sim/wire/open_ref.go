package wire

import (
	"bytes"
	"encoding/binary"
	"fmt"
	"sort"
)

// OpenCfg is the configuration an OPEN is judged against.
type OpenCfg struct {
	LocalID  uint32
	LocalAS  uint32
	RemoteAS uint32
}

// NotifPat is an acceptable NOTIFICATION: code, subcode, and (if Data is
// non-nil) the exact data.
type NotifPat struct {
	Code, Sub uint8
	Data      []byte // nil = unspecified by the property
}

func (p NotifPat) Match(n Notif) bool {
	return p.Code == n.Code && p.Sub == n.Sub && (p.Data == nil || bytes.Equal(p.Data, n.Data))
}

func (p NotifPat) String() string {
	if p.Data == nil {
		return fmt.Sprintf("(%d,%d)", p.Code, p.Sub)
	}
	return fmt.Sprintf("(%d,%d,data=%x)", p.Code, p.Sub, p.Data)
}

// OpenVerdict is the reference judgement of an OPEN body: the set of faults
// present and, for each, the notifications the property allows.
type OpenVerdict struct {
	// Faults are the faults the statement names: if any is present the OPEN
	// must be refused with one of Allowed. Sorted.
	Faults []string
	// Soft are irregularities the statement is silent about (identifier
	// 0.0.0.0, an empty capabilities parameter, duplicate 4-octet-AS
	// capabilities that disagree): with only these present, accepting and
	// refusing with one of Allowed are both fine.
	Soft    []string
	Allowed []NotifPat // union over hard and soft faults present
	// Parsed is the strict parse of the body when it is structurally
	// well-formed (every nested length consistent).
	Parsed    *Open
	ParsedErr error
}

// MustAccept: no fault of any kind. MustRefuse: at least one hard fault.
func (v OpenVerdict) MustAccept() bool { return len(v.Faults) == 0 && len(v.Soft) == 0 }
func (v OpenVerdict) MustRefuse() bool { return len(v.Faults) > 0 }

func (v OpenVerdict) Allows(n Notif) bool {
	for _, p := range v.Allowed {
		if p.Match(n) {
			return true
		}
	}
	return false
}

// ClassifyOpen lists every fault present in an OPEN body for the given
// configuration, following RFC 4271 6.2, RFC 5492, RFC 6793, RFC 6286 and the
// text of property C02. It walks the optional parameters as far as they parse
// and collects every fault seen on the way.
func ClassifyOpen(body []byte, cfg OpenCfg) OpenVerdict {
	var v OpenVerdict
	hard := map[string]bool{}
	soft := map[string]bool{}
	add := func(f string, pats ...NotifPat) {
		if !hard[f] {
			hard[f] = true
			v.Allowed = append(v.Allowed, pats...)
		}
	}
	addSoft := func(f string, pats ...NotifPat) {
		if !soft[f] {
			soft[f] = true
			v.Allowed = append(v.Allowed, pats...)
		}
	}
	finish := func() OpenVerdict {
		for f := range hard {
			v.Faults = append(v.Faults, f)
		}
		for f := range soft {
			v.Soft = append(v.Soft, f)
		}
		sort.Strings(v.Faults)
		sort.Strings(v.Soft)
		return v
	}
	if len(body) < 10 {
		add("short", NotifPat{Code: 1, Sub: 2})
		return finish()
	}
	ver := body[0]
	as2 := binary.BigEndian.Uint16(body[1:3])
	hold := binary.BigEndian.Uint16(body[3:5])
	id := binary.BigEndian.Uint32(body[5:9])
	if ver != 4 {
		add("version", NotifPat{Code: 2, Sub: 1, Data: []byte{0, 4}})
	}
	if as2 != ASTrans && uint32(as2) != cfg.RemoteAS {
		add("as2", NotifPat{Code: 2, Sub: 2})
	}
	if hold == 1 || hold == 2 {
		add("hold", NotifPat{Code: 2, Sub: 6})
	}
	if id>>28 == 0xE {
		add("id-multicast", NotifPat{Code: 2, Sub: 3})
	}
	if cfg.LocalAS == cfg.RemoteAS && id == cfg.LocalID {
		add("id-collides", NotifPat{Code: 2, Sub: 3})
	}
	if id == 0 {
		// RFC 6286 wants a non-zero identifier; the statement is silent
		addSoft("id-zero", NotifPat{Code: 2, Sub: 3})
	}

	o, perr := ParseOpenStrict(body)
	v.ParsedErr = perr
	if perr == nil {
		v.Parsed = &o
	}
	cap4 := Cap4(cfg.RemoteAS).Bytes()
	opl := int(body[9])
	wellFormed := true
	if opl != len(body)-10 {
		add("optlen-mismatch", NotifPat{Code: 2, Sub: 0})
		wellFormed = false
	}
	// walk the parameters over the bytes that are really there
	rest := body[10:]
	var caps []Cap
	nparams := 0
	for len(rest) > 0 {
		if len(rest) < 2 || len(rest) < 2+int(rest[1]) {
			add("param-inconsistent", NotifPat{Code: 2, Sub: 0})
			wellFormed = false
			break
		}
		pt, pl := rest[0], int(rest[1])
		val := rest[2 : 2+pl]
		rest = rest[2+pl:]
		nparams++
		if pt != 2 {
			add("param-type", NotifPat{Code: 2, Sub: 4})
			continue
		}
		if len(val) == 0 {
			// an empty capabilities parameter: "empty list" in the widest
			// reading; refusing with subcode 0 is allowed, so is ignoring it
			addSoft("cap-param-empty", NotifPat{Code: 2, Sub: 0})
			continue
		}
		bad := false
		for len(val) > 0 {
			if len(val) < 2 || len(val) < 2+int(val[1]) {
				add("cap-inconsistent", NotifPat{Code: 2, Sub: 0})
				wellFormed = false
				bad = true
				break
			}
			cl := int(val[1])
			caps = append(caps, Cap{Code: val[0], Value: val[2 : 2+cl]})
			val = val[2+cl:]
		}
		if bad {
			break
		}
	}
	if !wellFormed {
		return finish()
	}
	if nparams == 0 {
		// empty parameter list: subcode 0 per the statement; the capability
		// is also missing from it, so subcode 7 names a fault that is present
		pats := []NotifPat{{Code: 2, Sub: 0}, {Code: 2, Sub: 7, Data: cap4}}
		if as2 == ASTrans {
			pats = append(pats, NotifPat{Code: 2, Sub: 2})
		}
		add("param-list-empty", pats...)
		return finish()
	}
	// well-formed list: look at the 4-octet AS capabilities
	good, wrong, badlen := 0, 0, 0
	for _, c := range caps {
		if c.Code != 65 {
			continue
		}
		switch {
		case len(c.Value) != 4:
			badlen++
		case binary.BigEndian.Uint32(c.Value) == cfg.RemoteAS:
			good++
		default:
			wrong++
		}
	}
	missing := []NotifPat{{Code: 2, Sub: 7, Data: cap4}}
	if as2 == ASTrans {
		missing = append(missing, NotifPat{Code: 2, Sub: 2})
	}
	switch {
	case good > 0 && wrong == 0 && badlen == 0:
		// fine
	case good > 0:
		// a right one and a disagreeing / malformed duplicate: which one
		// counts is not stated
		addSoft("cap65-conflict", NotifPat{Code: 2, Sub: 2}, NotifPat{Code: 2, Sub: 0})
	case wrong > 0 || badlen > 0:
		pats := []NotifPat{}
		if wrong > 0 {
			pats = append(pats, NotifPat{Code: 2, Sub: 2})
		}
		if badlen > 0 {
			pats = append(pats, NotifPat{Code: 2, Sub: 0}, NotifPat{Code: 2, Sub: 2})
			pats = append(pats, missing...)
		}
		add("cap65-bad", pats...)
	default:
		// no 4-octet AS capability at all
		if hard["param-type"] {
			// missing from a list that is not well-formed in the sense of
			// the statement (it has an unknown parameter): refusal is already
			// required; subcode 7 also names a present fault
			add("cap65-missing-in-faulty-list", missing...)
		} else {
			add("cap65-missing", missing...)
		}
	}
	return finish()
}
