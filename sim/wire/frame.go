// Package wire is an independent BGP codec and set of reference models written
// from the RFCs (4271, 5492, 6793, 6286, 6608, 7606, 7911, 4760, 2545, 1997,
// 4456, 8092). It never calls corebgp: it is the vocabulary of the oracles.
package wire

import (
	"encoding/binary"
	"encoding/hex"
	"encoding/json"
	"fmt"
)

const (
	TypeOpen         = 1
	TypeUpdate       = 2
	TypeNotification = 3
	TypeKeepalive    = 4

	HeaderLen = 19
	MaxLen    = 4096
	MaxBody   = MaxLen - HeaderLen // 4077
)

// Frame builds a well-formed message: 16 x 0xFF, length, type, body.
func Frame(typ uint8, body []byte) []byte {
	b := make([]byte, HeaderLen+len(body))
	for i := 0; i < 16; i++ {
		b[i] = 0xFF
	}
	binary.BigEndian.PutUint16(b[16:18], uint16(HeaderLen+len(body)))
	b[18] = typ
	copy(b[HeaderLen:], body)
	return b
}

// RawHeader builds an arbitrary 19-byte header.
func RawHeader(marker [16]byte, length uint16, typ uint8) []byte {
	b := make([]byte, HeaderLen)
	copy(b, marker[:])
	binary.BigEndian.PutUint16(b[16:18], length)
	b[18] = typ
	return b
}

// GoodMarker is sixteen 0xFF octets.
func GoodMarker() (m [16]byte) {
	for i := range m {
		m[i] = 0xFF
	}
	return
}

func Keepalive() []byte { return Frame(TypeKeepalive, nil) }

// Msg is one message found in a byte stream.
type Msg struct {
	Type uint8
	Body []byte
	Off  int // offset of the header in the stream
}

// ParseStream is the strict frame parser: the whole of b must be a
// concatenation of complete messages with a correct marker, a length field
// within 19..4096 that equals the bytes present, and a known type. It returns
// the messages parsed before the first fault and an error describing it.
func ParseStream(b []byte) ([]Msg, error) {
	var out []Msg
	off := 0
	for off < len(b) {
		rest := b[off:]
		if len(rest) < HeaderLen {
			return out, fmt.Errorf("offset %d: %d trailing bytes, less than a header", off, len(rest))
		}
		for i := 0; i < 16; i++ {
			if rest[i] != 0xFF {
				return out, fmt.Errorf("offset %d: marker octet %d is %#02x", off, i, rest[i])
			}
		}
		l := int(binary.BigEndian.Uint16(rest[16:18]))
		if l < HeaderLen || l > MaxLen {
			return out, fmt.Errorf("offset %d: length field %d outside 19..4096", off, l)
		}
		typ := rest[18]
		if typ < 1 || typ > 4 {
			return out, fmt.Errorf("offset %d: unknown type %d", off, typ)
		}
		if len(rest) < l {
			return out, fmt.Errorf("offset %d: length field %d but only %d bytes follow", off, l, len(rest))
		}
		out = append(out, Msg{Type: typ, Body: append([]byte(nil), rest[HeaderLen:l]...), Off: off})
		off += l
	}
	return out, nil
}

// Notif is a NOTIFICATION body.
type Notif struct {
	Code, Sub uint8
	Data      []byte
}

func (n Notif) Body() []byte {
	b := []byte{n.Code, n.Sub}
	return append(b, n.Data...)
}

func (n Notif) Frame() []byte { return Frame(TypeNotification, n.Body()) }

func (n Notif) String() string {
	return fmt.Sprintf("NOTIFICATION(%d,%d,data=%x)", n.Code, n.Sub, n.Data)
}

// ParseNotif parses a NOTIFICATION body (RFC 4271 4.5): code, subcode, data.
func ParseNotif(body []byte) (Notif, error) {
	if len(body) < 2 {
		return Notif{}, fmt.Errorf("NOTIFICATION body of %d bytes", len(body))
	}
	return Notif{Code: body[0], Sub: body[1], Data: append([]byte(nil), body[2:]...)}, nil
}

// Cap is one capability TLV (RFC 5492).
type Cap struct {
	Code  uint8
	Value []byte
}

// MarshalJSON renders the value as hex so that replay files are readable.
func (c Cap) MarshalJSON() ([]byte, error) {
	return []byte(fmt.Sprintf(`{"code":%d,"value":"%x"}`, c.Code, c.Value)), nil
}

func (c *Cap) UnmarshalJSON(b []byte) error {
	var v struct {
		Code  uint8  `json:"code"`
		Value string `json:"value"`
	}
	if err := json.Unmarshal(b, &v); err != nil {
		return err
	}
	d, err := hex.DecodeString(v.Value)
	if err != nil {
		return err
	}
	c.Code, c.Value = v.Code, d
	return nil
}

func (c Cap) Bytes() []byte {
	b := []byte{c.Code, uint8(len(c.Value))}
	return append(b, c.Value...)
}

// Cap4 is the 4-octet AS capability (RFC 6793).
func Cap4(as uint32) Cap {
	v := make([]byte, 4)
	binary.BigEndian.PutUint32(v, as)
	return Cap{Code: 65, Value: v}
}

// Param is one optional parameter of an OPEN. For Type 2 the value is the
// concatenation of Caps; otherwise Raw.
type Param struct {
	Type uint8
	Caps []Cap
	Raw  []byte
}

func (p Param) Bytes() []byte {
	v := p.Raw
	if p.Type == 2 && p.Raw == nil {
		for _, c := range p.Caps {
			v = append(v, c.Bytes()...)
		}
	}
	b := []byte{p.Type, uint8(len(v))}
	return append(b, v...)
}

// Open is an OPEN message (RFC 4271 4.2).
type Open struct {
	Version uint8
	AS2     uint16
	Hold    uint16
	ID      uint32
	Params  []Param
}

const ASTrans = 23456

// NewOpen builds the OPEN a well-behaved 4-octet-AS speaker sends.
func NewOpen(as uint32, hold uint16, id uint32, extra ...Cap) Open {
	o := Open{Version: 4, Hold: hold, ID: id}
	if as > 65535 {
		o.AS2 = ASTrans
	} else {
		o.AS2 = uint16(as)
	}
	caps := append([]Cap{Cap4(as)}, extra...)
	o.Params = []Param{{Type: 2, Caps: caps}}
	return o
}

// Body encodes the OPEN body with consistent length octets (all lengths are
// taken mod 256, the caller is responsible for representability).
func (o Open) Body() []byte {
	b := make([]byte, 10)
	b[0] = o.Version
	binary.BigEndian.PutUint16(b[1:3], o.AS2)
	binary.BigEndian.PutUint16(b[3:5], o.Hold)
	binary.BigEndian.PutUint32(b[5:9], o.ID)
	var ps []byte
	for _, p := range o.Params {
		ps = append(ps, p.Bytes()...)
	}
	b[9] = uint8(len(ps))
	return append(b, ps...)
}

func (o Open) Frame() []byte { return Frame(TypeOpen, o.Body()) }

// AllCaps returns the capabilities of all type-2 parameters in order.
func (o Open) AllCaps() []Cap {
	var out []Cap
	for _, p := range o.Params {
		if p.Type == 2 {
			out = append(out, p.Caps...)
		}
	}
	return out
}

// ParseOpenStrict parses an OPEN body demanding that every nested length
// octet agrees with the bytes that follow: the optional parameters length
// covers exactly the rest of the body, parameters tile it exactly, and the
// capability TLVs tile each type-2 parameter exactly. Parameters of other
// types are kept raw.
func ParseOpenStrict(body []byte) (Open, error) {
	var o Open
	if len(body) < 10 {
		return o, fmt.Errorf("OPEN body of %d bytes lacks the fixed fields", len(body))
	}
	o.Version = body[0]
	o.AS2 = binary.BigEndian.Uint16(body[1:3])
	o.Hold = binary.BigEndian.Uint16(body[3:5])
	o.ID = binary.BigEndian.Uint32(body[5:9])
	opl := int(body[9])
	if opl != len(body)-10 {
		return o, fmt.Errorf("optional parameters length %d but %d bytes follow", opl, len(body)-10)
	}
	rest := body[10:]
	for len(rest) > 0 {
		if len(rest) < 2 {
			return o, fmt.Errorf("truncated parameter header")
		}
		pt, pl := rest[0], int(rest[1])
		if len(rest) < 2+pl {
			return o, fmt.Errorf("parameter length %d overruns (%d left)", pl, len(rest)-2)
		}
		val := rest[2 : 2+pl]
		rest = rest[2+pl:]
		p := Param{Type: pt}
		if pt == 2 {
			p.Caps = []Cap{}
			for len(val) > 0 {
				if len(val) < 2 {
					return o, fmt.Errorf("truncated capability header")
				}
				cl := int(val[1])
				if len(val) < 2+cl {
					return o, fmt.Errorf("capability length %d overruns (%d left)", cl, len(val)-2)
				}
				p.Caps = append(p.Caps, Cap{Code: val[0], Value: append([]byte(nil), val[2:2+cl]...)})
				val = val[2+cl:]
			}
		} else {
			p.Raw = append([]byte{}, val...)
		}
		o.Params = append(o.Params, p)
	}
	return o, nil
}
