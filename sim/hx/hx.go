// Package hx is the shared harness: tier/seed/shard plumbing, evidence
// counters, known-finding classification, failure/replay files, and thin
// wrappers that drive an oracle with rapid, with an enumeration, or with a
// saved case (bypassing rapid).
package hx

import (
	"encoding/binary"
	"encoding/hex"
	"encoding/json"
	"flag"
	"fmt"
	"hash/fnv"
	"iter"
	"os"
	"path/filepath"
	"runtime/debug"
	"sort"
	"strconv"
	"strings"
	"sync"
	"testing"
	"time"

	"pgregory.net/rapid"
)

// Hex is a byte slice that marshals as a hex string, so that replay files
// and evidence samples are readable.
type Hex []byte

func (h Hex) MarshalJSON() ([]byte, error) { return json.Marshal(hex.EncodeToString(h)) }
func (h *Hex) UnmarshalJSON(b []byte) error {
	var s string
	if err := json.Unmarshal(b, &s); err != nil {
		return err
	}
	d, err := hex.DecodeString(s)
	if err != nil {
		return err
	}
	*h = d
	return nil
}

// Dev is a deviation from the property found by an oracle. Key classifies it
// (explicit predicate over the failing input and the wrong behaviour) so that
// it can be matched against known_findings.json; an empty key never matches.
type Dev struct {
	Key string
	Msg string
}

func Devf(key, format string, a ...any) *Dev { return &Dev{Key: key, Msg: fmt.Sprintf(format, a...)} }

// Verdict is what an oracle returns for one case.
type Verdict struct {
	NT    string // key of the case if it is non-trivial by the property's rule, else ""
	Class string // histogram class ("" = none)
	Dev   *Dev   // nil = property held on this case
}

type knownEntry struct {
	Status   string          `json:"status"`
	Property string          `json:"property"`
	Key      string          `json:"key"`
	What     string          `json:"what"`
	Check    string          `json:"check,omitempty"`
	Witness  json.RawMessage `json:"witness,omitempty"`
	Commit   string          `json:"commit,omitempty"`
}

type replayFile struct {
	Property string          `json:"property"`
	Check    string          `json:"check"`
	Key      string          `json:"key,omitempty"`
	Message  string          `json:"message,omitempty"`
	Case     json.RawMessage `json:"case"`
}

type subStat struct {
	Evaluations int64 `json:"evaluations"`
	Requested   int64 `json:"requested"`
	Exhaustive  bool  `json:"exhaustive"`
	Skipped     bool  `json:"skipped,omitempty"`
}

type knownHit struct {
	Count   int64           `json:"count"`
	What    string          `json:"what"`
	Example json.RawMessage `json:"example,omitempty"`
	Msg     string          `json:"msg,omitempty"`
}

// Run collects the evidence of one property in one process (shard).
type Run struct {
	Prop   string
	Tier   string
	Seed   int
	Shard  int
	Shards int
	Race   bool

	outDir string
	known  map[string]knownEntry
	replay *replayFile
	// replayExpect: "" (must pass), or a key that the case is expected to
	// reproduce (known-finding witness)
	start time.Time

	mu        sync.Mutex
	evals     int64
	nt        map[uint64]struct{}
	classes   map[string]int64
	knownHits map[string]*knownHit
	samples   []json.RawMessage
	subs      map[string]*subStat
	notes     []string
	failed    bool
	curSub    string
	failSub   string
}

func envInt(name string, def int) int {
	if v := os.Getenv(name); v != "" {
		if n, err := strconv.Atoi(v); err == nil {
			return n
		}
	}
	return def
}

// Start creates the Run for a property from the VERIF_* environment.
func Start(t *testing.T, prop string) *Run {
	r := &Run{
		Prop:      prop,
		Tier:      os.Getenv("VERIF_TIER"),
		Seed:      envInt("VERIF_SEED", 1),
		Shard:     envInt("VERIF_SHARD", 0),
		Shards:    envInt("VERIF_SHARDS", 1),
		Race:      os.Getenv("VERIF_RACE") == "1",
		outDir:    os.Getenv("VERIF_OUT"),
		known:     map[string]knownEntry{},
		nt:        map[uint64]struct{}{},
		classes:   map[string]int64{},
		knownHits: map[string]*knownHit{},
		subs:      map[string]*subStat{},
		start:     time.Now(),
	}
	if r.Tier == "" {
		r.Tier = "quick"
	}
	if r.Shards < 1 {
		r.Shards = 1
	}
	if r.outDir == "" {
		r.outDir = t.TempDir()
	}
	if p := os.Getenv("VERIF_KNOWN"); p != "" {
		b, err := os.ReadFile(p)
		if err != nil {
			t.Fatalf("hx: cannot read known findings: %v", err)
		}
		var f struct {
			Findings []knownEntry `json:"findings"`
		}
		if err := json.Unmarshal(b, &f); err != nil {
			t.Fatalf("hx: bad known findings file: %v", err)
		}
		for _, e := range f.Findings {
			if e.Property == prop && e.Status == "known" {
				r.known[e.Key] = e
			}
		}
	}
	if p := os.Getenv("VERIF_REPLAY"); p != "" {
		b, err := os.ReadFile(p)
		if err != nil {
			t.Fatalf("hx: cannot read replay file: %v", err)
		}
		var rf replayFile
		if err := json.Unmarshal(b, &rf); err != nil {
			t.Fatalf("hx: bad replay file: %v", err)
		}
		r.replay = &rf
	}
	return r
}

func (r *Run) Quick() bool     { return r.Tier != "thorough" }
func (r *Run) Replaying() bool { return r.replay != nil }

// N picks a case count by tier. In thorough tier the count is per shard.
func (r *Run) N(quick, thorough int) int {
	n := thorough
	if r.Quick() {
		n = quick
	}
	if r.Race {
		// the race detector slows execution 5-10x: race shards run a third of the cases
		n = max(n/3, 1)
	}
	return n
}

// Note adds a free-text line to the evidence.
func (r *Run) Note(format string, a ...any) {
	r.mu.Lock()
	defer r.mu.Unlock()
	r.notes = append(r.notes, fmt.Sprintf(format, a...))
}

func hash64(s string) uint64 {
	h := fnv.New64a()
	h.Write([]byte(s))
	return h.Sum64()
}

// rapidSeed derives the seed of a sub-check from (VERIF_SEED, shard, name);
// 0 would mean "random" to rapid, so it is remapped.
func (r *Run) rapidSeed(name string) uint64 {
	s := uint64(r.Seed)*1000003 + uint64(r.Shard)*7919 + hash64(name)%1000
	if s == 0 {
		s = 1
	}
	return s
}

func (r *Run) record(sub string, c any, v Verdict) {
	r.mu.Lock()
	defer r.mu.Unlock()
	r.evals++
	r.subs[sub].Evaluations++
	if v.Class != "" {
		r.classes[sub+"/"+v.Class]++
	}
	if v.NT != "" {
		h := hash64(sub + "\x00" + v.NT)
		if _, ok := r.nt[h]; !ok {
			r.nt[h] = struct{}{}
			// keep a few spaced samples of non-trivial cases
			n := len(r.nt)
			if len(r.samples) < 8 && (n <= 2 || n == 10 || n == 100 || n == 1000 || n == 10000 || n == 100000) {
				if b, err := json.Marshal(map[string]any{"check": sub, "class": v.Class, "case": c}); err == nil && len(b) < 6000 {
					r.samples = append(r.samples, b)
				}
			}
		}
	}
}

// handle processes a deviation: known findings are counted and excluded,
// anything else is written as the failing case. Reports whether the case
// counts as a failure.
func (r *Run) handle(sub string, c any, d *Dev) bool {
	if d == nil {
		return false
	}
	r.mu.Lock()
	defer r.mu.Unlock()
	if e, ok := r.known[d.Key]; ok && d.Key != "" {
		h := r.knownHits[d.Key]
		if h == nil {
			h = &knownHit{What: e.What, Msg: d.Msg}
			if b, err := json.Marshal(map[string]any{"check": sub, "case": c}); err == nil && len(b) < 6000 {
				h.Example = b
			}
			r.knownHits[d.Key] = h
		}
		h.Count++
		return false
	}
	r.failed = true
	if r.failSub == "" || r.failSub == sub {
		// keep the (shrinking) case of the first failing sub-check
		r.failSub = sub
		r.writeFail(sub, c, d)
	}
	return true
}

func (r *Run) failPath() string {
	return filepath.Join(r.outDir, fmt.Sprintf("%s.%d.fail.json", r.Prop, r.Shard))
}

func (r *Run) writeFail(sub string, c any, d *Dev) {
	cb, err := json.Marshal(c)
	if err != nil {
		cb = []byte(`"unmarshalable case"`)
	}
	b, _ := json.MarshalIndent(replayFile{Property: r.Prop, Check: sub, Key: d.Key, Message: d.Msg, Case: cb}, "", " ")
	os.WriteFile(r.failPath(), b, 0o644)
}

// SetCurrent records the case about to be executed, so that a crash of the
// whole process (a panic in a corebgp goroutine) can be attributed to it.
func (r *Run) SetCurrent(sub string, c any) {
	cb, err := json.Marshal(c)
	if err != nil {
		return
	}
	b, _ := json.Marshal(replayFile{Property: r.Prop, Check: sub, Key: "process-crash", Message: "process died while executing this case", Case: cb})
	os.WriteFile(filepath.Join(r.outDir, fmt.Sprintf("%s.%d.current.json", r.Prop, r.Shard)), b, 0o644)
}

func (r *Run) beginSub(name string, requested int64, exhaustive bool) bool {
	r.mu.Lock()
	defer r.mu.Unlock()
	if r.replay != nil && r.replay.Check != name {
		return false
	}
	if _, ok := r.subs[name]; !ok {
		r.subs[name] = &subStat{}
	}
	r.subs[name].Requested += requested
	r.subs[name].Exhaustive = exhaustive
	r.curSub = name
	return true
}

func safeProp[C any](prop func(C) Verdict, c C) (v Verdict) {
	defer func() {
		if p := recover(); p != nil {
			st := string(debug.Stack())
			if len(st) > 3000 {
				st = st[:3000]
			}
			v.Dev = &Dev{Key: "panic", Msg: fmt.Sprintf("panic: %v\n%s", p, st)}
		}
	}()
	return prop(c)
}

// doReplay runs the saved case through the oracle, bypassing rapid.
func doReplay[C any](r *Run, t *testing.T, name string, prop func(C) Verdict) {
	var c C
	if err := json.Unmarshal(r.replay.Case, &c); err != nil {
		t.Fatalf("hx: replay case does not fit check %s: %v", name, err)
	}
	reps := envInt("VERIF_REPLAY_REPS", 1)
	for i := 0; i < reps; i++ {
		v := safeProp(prop, c)
		r.record(name, c, v)
		if v.Dev != nil {
			fmt.Printf("REPLAY-DEVIATION property=%s check=%s key=%s :: %s\n", r.Prop, name, v.Dev.Key, firstLine(v.Dev.Msg))
			if r.handle(name, c, v.Dev) {
				t.Errorf("replay: %s", v.Dev.Msg)
			}
			return
		}
	}
	fmt.Printf("REPLAY-OK property=%s check=%s\n", r.Prop, name)
}

func firstLine(s string) string {
	if i := strings.IndexByte(s, '\n'); i >= 0 {
		return s[:i]
	}
	return s
}

// Rapid drives the oracle with n generated cases (rapid generators, rapid
// shrinking). gen must make every random choice through rt.
func Rapid[C any](r *Run, t *testing.T, name string, n int, gen func(rt *rapid.T) C, prop func(C) Verdict) {
	if !r.beginSub(name, int64(n), false) {
		return
	}
	if r.replay != nil {
		doReplay(r, t, name, prop)
		return
	}
	flag.Set("rapid.checks", strconv.Itoa(n))
	flag.Set("rapid.seed", strconv.FormatUint(r.rapidSeed(name), 10))
	flag.Set("rapid.nofailfile", "true")
	if os.Getenv("VERIF_SHRINKTIME") != "" {
		flag.Set("rapid.shrinktime", os.Getenv("VERIF_SHRINKTIME"))
	}
	t.Run(name, func(t *testing.T) {
		rapid.Check(t, func(rt *rapid.T) {
			c := gen(rt)
			v := safeProp(prop, c)
			r.record(name, c, v)
			if r.handle(name, c, v.Dev) {
				rt.Fatalf("[%s/%s] key=%s: %s", r.Prop, name, v.Dev.Key, v.Dev.Msg)
			}
		})
	})
}

// Enum drives the oracle over an enumeration; with several shards each takes
// every Shards-th element. total is the size of the enumeration if known (0
// otherwise). The sub-check is marked exhaustive.
func Enum[C any](r *Run, t *testing.T, name string, total int64, seq iter.Seq[C], prop func(C) Verdict) {
	if !r.beginSub(name, total, true) {
		return
	}
	if r.replay != nil {
		doReplay(r, t, name, prop)
		return
	}
	t.Run(name, func(t *testing.T) {
		i := 0
		for c := range seq {
			i++
			if (i-1)%r.Shards != r.Shard {
				continue
			}
			v := safeProp(prop, c)
			r.record(name, c, v)
			if r.handle(name, c, v.Dev) {
				t.Fatalf("[%s/%s] key=%s: %s", r.Prop, name, v.Dev.Key, v.Dev.Msg)
			}
		}
	})
}

// Finish writes the evidence fragment of this process.
func (r *Run) Finish(t *testing.T) {
	r.mu.Lock()
	defer r.mu.Unlock()
	type frag struct {
		Property    string               `json:"property"`
		Tier        string               `json:"tier"`
		Seed        int                  `json:"seed"`
		Shard       int                  `json:"shard"`
		Shards      int                  `json:"shards"`
		Race        bool                 `json:"race"`
		Evaluations int64                `json:"evaluations"`
		Nontrivial  int                  `json:"nontrivial"`
		Classes     map[string]int64     `json:"classes"`
		Known       map[string]*knownHit `json:"known"`
		Samples     []json.RawMessage    `json:"samples"`
		Subs        map[string]*subStat  `json:"subs"`
		Notes       []string             `json:"notes"`
		Failed      bool                 `json:"failed"`
		WallS       float64              `json:"wall_s"`
		Replay      bool                 `json:"replay"`
	}
	f := frag{
		Property: r.Prop, Tier: r.Tier, Seed: r.Seed, Shard: r.Shard, Shards: r.Shards, Race: r.Race,
		Evaluations: r.evals, Nontrivial: len(r.nt), Classes: r.classes, Known: r.knownHits,
		Samples: r.samples, Subs: r.subs, Notes: r.notes, Failed: r.failed || t.Failed(),
		WallS: time.Since(r.start).Seconds(), Replay: r.replay != nil,
	}
	b, _ := json.MarshalIndent(f, "", " ")
	suffix := ""
	if r.Race {
		suffix = ".race"
	}
	base := filepath.Join(r.outDir, fmt.Sprintf("%s.%d%s", r.Prop, r.Shard, suffix))
	if err := os.WriteFile(base+".frag.json", b, 0o644); err != nil {
		t.Errorf("hx: cannot write fragment: %v", err)
	}
	hs := make([]uint64, 0, len(r.nt))
	for h := range r.nt {
		hs = append(hs, h)
	}
	sort.Slice(hs, func(i, j int) bool { return hs[i] < hs[j] })
	buf := make([]byte, 8*len(hs))
	for i, h := range hs {
		binary.LittleEndian.PutUint64(buf[8*i:], h)
	}
	os.WriteFile(base+".nt", buf, 0o644)
}
