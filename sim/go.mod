module verif/sim

go 1.26.8

require (
	github.com/jwhited/corebgp v0.0.0
	github.com/anishathalye/porcupine v1.3.0
	pgregory.net/rapid v1.3.0
)

require golang.org/x/sys v0.15.0 // indirect

replace github.com/jwhited/corebgp => /repo
