// Package world runs a corebgp Server inside a testing/synctest bubble on the
// in-memory network, with a recording, scriptable plugin and helpers that act
// for the remote BGP speakers. Everything observable is recorded in one event
// log; oracles are functions of (case, log, connection snapshots).
package world

import (
	"context"
	"errors"
	"fmt"
	"net"
	"net/netip"
	"runtime"
	"strings"
	"sync"
	"sync/atomic"
	"testing"
	"testing/synctest"
	"time"

	"github.com/jwhited/corebgp"

	"verif/sim/hx"
	"verif/sim/memnet"
	"verif/sim/wire"
)

// NonceCapCode is the private-use capability code that carries, in corebgp's
// OPEN, the number of the GetCapabilities call that produced it, and in a
// scripted remote's OPEN, the id of the connection it is sent on.
const NonceCapCode = 0xF0

type NotifSpec struct {
	Code uint8  `json:"code"`
	Sub  uint8  `json:"sub"`
	Data hx.Hex `json:"data,omitempty"`
}

func (n *NotifSpec) core() *corebgp.Notification {
	if n == nil {
		return nil
	}
	return &corebgp.Notification{Code: n.Code, Subcode: n.Sub, Data: append([]byte(nil), n.Data...)}
}

// PluginSpec scripts the behaviour of the recording plugin of one peer.
type PluginSpec struct {
	Caps    []wire.Cap `json:"caps,omitempty"`
	NoNonce bool       `json:"no_nonce,omitempty"`
	// BigCapsFirst: the first that many GetCapabilities calls return a list that cannot be
	// represented in an OPEN (one 256-octet value); later calls behave normally
	BigCapsFirst int `json:"big_caps_first,omitempty"`
	// SharedCaps: the plugin builds its capability list once, in a slice with spare
	// capacity, and returns that very slice from every call (no nonce is appended)
	SharedCaps     bool             `json:"shared_caps,omitempty"`
	// MutateShared (with SharedCaps): before every call after the first the plugin changes
	// the values in its one slice in place (first octet of every non-empty value + 1); the
	// "caps-" event carries a copy of what the call returned
	MutateShared bool `json:"mutate_shared,omitempty"`
	OpenNotif      *NotifSpec       `json:"open_notif,omitempty"`
	NilHandler     bool             `json:"nil_handler,omitempty"`
	HandlerNotifOn int              `json:"handler_notif_on,omitempty"` // 1-based handler call of a session; 0 = never
	HandlerNotif   *NotifSpec       `json:"handler_notif,omitempty"`
	SleepNs        map[string]int64 `json:"sleep_ns,omitempty"` // caps, open, est, upd, close: virtual sleep inside the callback (only for scripts without API calls, see point)
	SpinUs         map[string]int64 `json:"spin_us,omitempty"`  // same keys: real-time busy wait inside the callback
	WriteInEst     []hx.Hex         `json:"write_in_est,omitempty"`
	WriteInUpd     []hx.Hex         `json:"write_in_upd,omitempty"` // written from inside the first handler call of a session
	WriteInClose   []hx.Hex         `json:"write_in_close,omitempty"`
}

// PeerSpec is a peer configuration plus its plugin script.
type PeerSpec struct {
	Remote      string     `json:"remote"`
	Local       string     `json:"local,omitempty"`
	LocalAS     uint32     `json:"local_as"`
	RemoteAS    uint32     `json:"remote_as"`
	Passive     bool       `json:"passive,omitempty"`
	Hold        int        `json:"hold"`                    // seconds; <0 = library default
	IdleHoldMs  int        `json:"idle_hold_ms,omitempty"`  // 0 = library default
	ConnRetryMs int        `json:"conn_retry_ms,omitempty"` // 0 = library default
	Port        int        `json:"port,omitempty"`          // 0 = library default
	Plugin      PluginSpec `json:"plugin"`
}

func (p PeerSpec) RemoteAddr() netip.Addr { return netip.MustParseAddr(p.Remote) }

func (p PeerSpec) IdleHold() time.Duration {
	if p.IdleHoldMs > 0 {
		return time.Duration(p.IdleHoldMs) * time.Millisecond
	}
	return corebgp.DefaultIdleHoldTime
}

func (p PeerSpec) ConnRetry() time.Duration {
	if p.ConnRetryMs > 0 {
		return time.Duration(p.ConnRetryMs) * time.Millisecond
	}
	return corebgp.DefaultConnectRetryTime
}

func (p PeerSpec) HoldSeconds() int {
	if p.Hold < 0 {
		return int(corebgp.DefaultHoldTimeSeconds)
	}
	return p.Hold
}

// Ev is one entry of the event log.
type Ev struct {
	Seq  int64         `json:"seq"`
	T    time.Duration `json:"t"`
	K    string        `json:"k"` // caps+ caps- open+ open- est+ est- upd+ upd- close+ close- wu+ wu- api+ api-
	Peer string        `json:"peer,omitempty"`
	N    int           `json:"n,omitempty"`    // caps: nonce; est/upd/close/wu: session index of the peer; open: remote nonce (conn id) or -1
	Data hx.Hex        `json:"data,omitempty"` // upd/wu: body
	Info string        `json:"info,omitempty"`
	Err  bool          `json:"err,omitempty"`  // wu-: WriteUpdate returned an error
	G    int64         `json:"g,omitempty"`    // wu: writer goroutine tag
	Caps []wire.Cap    `json:"caps,omitempty"` // open+: capabilities handed to OnOpenMessage
	ID   string        `json:"id,omitempty"`   // open+: router id handed to OnOpenMessage
}

// Recorder is the event log.
type Recorder struct {
	net *memnet.Net
	mu  sync.Mutex
	evs []Ev
}

func (r *Recorder) add(e Ev) int64 {
	r.mu.Lock()
	defer r.mu.Unlock()
	e.Seq = r.net.NextSeq()
	e.T = r.net.Since()
	r.evs = append(r.evs, e)
	return e.Seq
}

// Add appends an event from the harness.
func (r *Recorder) Add(e Ev) int64 { return r.add(e) }

// Events returns a copy of the log.
func (r *Recorder) Events() []Ev {
	r.mu.Lock()
	defer r.mu.Unlock()
	return append([]Ev(nil), r.evs...)
}

// Len returns the number of events so far.
func (r *Recorder) Len() int {
	r.mu.Lock()
	defer r.mu.Unlock()
	return len(r.evs)
}

type retained struct {
	orig []byte // the slice corebgp handed to the handler
	copy []byte // its content at that time
}

// peerState is the per-peer plugin state.
type peerState struct {
	spec     PeerSpec
	mu       sync.Mutex
	sessions int   // number of OnEstablished so far
	sessIDs  []int // world-wide session number of each
	writers  []corebgp.UpdateMessageWriter
	retained []retained
	shared   []corebgp.Capability // SharedCaps: the one slice handed out by GetCapabilities
}

// World is one server with its network, inside a bubble.
type World struct {
	Net      *memnet.Net
	Lis      *memnet.Listener
	extraLis []*memnet.Listener
	Srv      *corebgp.Server
	Rec      *Recorder
	RouterID netip.Addr

	mu        sync.Mutex
	peers     map[string]*peerState
	capsCalls atomic.Int64
	sessCtr   atomic.Int64
	serveDone chan struct{}
	serveErr  error
	served    bool

	pointDelays  []int64 // schedule-point delay vector (virtual ns)
	pointCalls   atomic.Int64
	pointPending atomic.Int64
	pointsOn     bool
	armMu        sync.Mutex
	arms         []pointArm
	armed        atomic.Int64
}

// New creates the world; it must be called inside the bubble. It installs the
// dial hook and the schedule-point hook.
func New(routerID string, pointDelays []int64) (*World, error) {
	w := &World{peers: map[string]*peerState{}, pointDelays: pointDelays}
	w.Net = memnet.New()
	w.Rec = &Recorder{net: w.Net}
	w.RouterID = netip.MustParseAddr(routerID)
	w.Lis = w.Net.NewListener(netip.MustParseAddrPort("0.0.0.0:179"))
	installHooks()
	w.pointsOn = len(pointDelays) > 0
	curWorld.Store(w)
	srv, err := corebgp.NewServer(w.RouterID)
	if err != nil {
		return nil, err
	}
	w.Srv = srv
	return w, nil
}

// The hook variables in corebgp (build tag verif) are plain package variables: they are set
// once per process, before any corebgp goroutine exists, to dispatchers that find the world
// of the moment through an atomic pointer. (Setting them per world raced - for the race
// detector - with the reads of goroutines that belonged to the previous world's bubble.)
var (
	hookOnce sync.Once
	curWorld atomic.Pointer[World]
)

func installHooks() {
	hookOnce.Do(func() {
		corebgp.VerifSetDial(func(ctx context.Context, local, remote netip.Addr, port int) (net.Conn, error) {
			w := curWorld.Load()
			if w == nil {
				return nil, errors.New("world: no world to dial in")
			}
			return w.Net.Dial(ctx, local, remote, port)
		})
		corebgp.VerifSetPoint(func(name string) {
			if w := curWorld.Load(); w != nil && w.pointsOn {
				w.point(name)
			}
		})
	})
}

// point is the schedule-point callback. The delay is a real-time busy wait
// (d x ~4 microseconds), not a virtual sleep: a goroutine blocked on
// Server.mu is not durably blocked, so virtual time cannot advance while one
// exists, and a virtual sleep here would wedge the bubble artificially
// whenever an API call contends for the mutex.
func (w *World) point(name string) {
	i := w.pointCalls.Add(1) - 1
	d := w.pointDelays[int(i)%len(w.pointDelays)]
	if w.armed.Load() > 0 {
		w.armMu.Lock()
		for k := range w.arms {
			a := &w.arms[k]
			if a.name != name || a.done {
				continue
			}
			if a.skip > 0 {
				a.skip--
				continue
			}
			a.done = true
			w.armed.Add(-1)
			d = max(d, a.d)
		}
		w.armMu.Unlock()
	}
	if d <= 0 {
		return
	}
	Spin(d * 4)
}

type pointArm struct {
	name string
	skip int
	d    int64
	done bool
}

// Arm makes the (skip+1)-th call of the named schedule point from now on busy-
// wait d x ~4 microseconds: a targeted delay, where the delay vector given to
// New is indexed by the global call count. The world must have been created
// with a non-empty delay vector ([]int64{0} will do) so that the hook is set.
func (w *World) Arm(name string, skip int, d int64) {
	w.armMu.Lock()
	w.arms = append(w.arms, pointArm{name: name, skip: skip, d: d})
	w.armMu.Unlock()
	w.armed.Add(1)
}

// Spin busy-waits in real time (see memnet.Spin).
func Spin(us int64) { memnet.Spin(us) }

// Options converts a PeerSpec into corebgp peer options.
func Options(p PeerSpec) []corebgp.PeerOption {
	var o []corebgp.PeerOption
	if p.Local != "" {
		o = append(o, corebgp.WithLocalAddress(netip.MustParseAddr(p.Local)))
	}
	if p.Passive {
		o = append(o, corebgp.WithPassive())
	}
	if p.Hold >= 0 {
		o = append(o, corebgp.WithHoldTime(uint16(p.Hold)))
	}
	if p.IdleHoldMs > 0 {
		o = append(o, corebgp.WithIdleHoldTime(time.Duration(p.IdleHoldMs)*time.Millisecond))
	}
	if p.ConnRetryMs > 0 {
		o = append(o, corebgp.WithConnectRetryTime(time.Duration(p.ConnRetryMs)*time.Millisecond))
	}
	if p.Port != 0 {
		o = append(o, corebgp.WithPort(p.Port))
	}
	return o
}

// AddPeer registers the peer with a fresh recording plugin.
func (w *World) AddPeer(p PeerSpec) error {
	ps := &peerState{spec: p}
	err := w.Srv.AddPeer(corebgp.PeerConfig{
		RemoteAddress: p.RemoteAddr(),
		LocalAS:       p.LocalAS,
		RemoteAS:      p.RemoteAS,
	}, &plugin{w: w, ps: ps}, Options(p)...)
	if err == nil {
		w.mu.Lock()
		w.peers[p.Remote] = ps
		w.mu.Unlock()
	}
	return err
}

// Serve starts Server.Serve on the world's listener in its own goroutine.
// ExtraListeners makes Serve listen on n more (idle) sockets besides the one
// the scripted remotes connect to. Call it before Serve.
func (w *World) ExtraListeners(n int) {
	for i := 0; i < n; i++ {
		w.extraLis = append(w.extraLis, w.Net.NewListener(netip.MustParseAddrPort(fmt.Sprintf("0.0.0.0:%d", 1790+len(w.extraLis)))))
	}
}

func (w *World) Serve() {
	w.served = true
	w.serveDone = make(chan struct{})
	// the listener the remotes connect to sits in the middle of the list
	var lis []net.Listener
	for i, l := range w.extraLis {
		if i == len(w.extraLis)/2 {
			lis = append(lis, w.Lis)
		}
		lis = append(lis, l)
	}
	if len(w.extraLis) == 0 {
		lis = append(lis, w.Lis)
	}
	go func() {
		w.serveErr = w.Srv.Serve(lis)
		close(w.serveDone)
	}()
}

// ServeDone is closed when Serve has returned.
func (w *World) ServeDone() <-chan struct{} { return w.serveDone }

// ServeReturned reports whether Serve has returned, and its error.
func (w *World) ServeReturned() (bool, error) {
	if !w.served {
		return false, nil
	}
	select {
	case <-w.serveDone:
		return true, w.serveErr
	default:
		return false, nil
	}
}

// Settle lets everything run until the system is stably quiescent: all
// goroutines durably blocked and no schedule-point sleeper pending.
func (w *World) Settle() {
	for i := 0; ; i++ {
		synctest.Wait()
		if w.pointPending.Load() == 0 {
			return
		}
		time.Sleep(time.Nanosecond)
	}
}

// Advance moves virtual time forward by d, then settles.
func (w *World) Advance(d time.Duration) {
	if d > 0 {
		time.Sleep(d)
	}
	w.Settle()
}

// Call runs f in its own goroutine and waits up to limit of virtual time for
// it to return.
func (w *World) Call(name, peer string, limit time.Duration, f func()) (returned bool, took time.Duration) {
	start := w.Net.Since()
	w.Rec.add(Ev{K: "api+", Info: name, Peer: peer})
	done := make(chan struct{})
	go func() {
		f()
		w.Rec.add(Ev{K: "api-", Info: name, Peer: peer})
		close(done)
	}()
	tm := time.NewTimer(limit)
	defer tm.Stop()
	select {
	case <-done:
		return true, w.Net.Since() - start
	case <-tm.C:
		return false, w.Net.Since() - start
	}
}

// Go runs f in its own goroutine recording api+/api- events, without waiting.
func (w *World) Go(name, peer string, f func()) chan struct{} {
	done := make(chan struct{})
	w.Rec.add(Ev{K: "api+", Info: name, Peer: peer})
	go func() {
		f()
		w.Rec.add(Ev{K: "api-", Info: name, Peer: peer})
		close(done)
	}()
	return done
}

// Inbound opens a connection from src to dst (host strings; ports are chosen
// here) towards the server's listener.
func (w *World) Inbound(src, dst string) *memnet.Conn {
	sp := netip.AddrPortFrom(netip.MustParseAddr(src), uint16(30000+w.Net.NextSeq()%20000))
	dp := netip.AddrPortFrom(netip.MustParseAddr(dst), 179)
	return w.Lis.Connect(sp, dp)
}

// InboundMapped is Inbound with both IPv4 addresses presented in their
// IPv4-mapped IPv6 form (16-byte net.IP), as a dual-stack ([::]) listener's
// accepted connections report them.
func (w *World) InboundMapped(src, dst string) *memnet.Conn {
	m := func(s string) netip.Addr {
		a := netip.MustParseAddr(s)
		if a.Is4() {
			return netip.AddrFrom16(a.As16())
		}
		return a
	}
	sp := netip.AddrPortFrom(m(src), uint16(30000+w.Net.NextSeq()%20000))
	dp := netip.AddrPortFrom(m(dst), 179)
	return w.Lis.Connect(sp, dp)
}

// Finish ends the case: closes the server (bounded), resets every connection
// from the remote side and reports whether Close/Serve returned. The bubble's
// own leak detection then checks that no goroutine remains.
func (w *World) Finish() (closeReturned bool) {
	closeReturned, _ = w.Call("Close(final)", "", 30*time.Second, w.Srv.Close)
	for _, c := range w.Net.Conns() {
		c.RemoteReset()
	}
	w.Lis.Close()
	for _, l := range w.extraLis {
		l.Close()
	}
	w.Settle()
	curWorld.CompareAndSwap(w, nil)
	return closeReturned
}

// Writer returns the UpdateMessageWriter handed to the n-th OnEstablished of
// the peer (nil if there was none).
func (w *World) Writer(peer string, sess int) corebgp.UpdateMessageWriter {
	w.mu.Lock()
	ps := w.peers[peer]
	w.mu.Unlock()
	if ps == nil {
		return nil
	}
	ps.mu.Lock()
	defer ps.mu.Unlock()
	if sess < 0 || sess >= len(ps.writers) {
		return nil
	}
	return ps.writers[sess]
}

// Sessions returns how many times OnEstablished fired for the peer.
func (w *World) Sessions(peer string) int {
	w.mu.Lock()
	ps := w.peers[peer]
	w.mu.Unlock()
	if ps == nil {
		return 0
	}
	ps.mu.Lock()
	defer ps.mu.Unlock()
	return ps.sessions
}

// WriteUpdate calls WriteUpdate on the writer handed to the sess-th
// OnEstablished of the peer's current registration, from the calling
// goroutine, recording wu+/wu- events (N = world-wide session number); g tags
// the caller. It returns the world-wide session number (-1 if no such writer).
func (w *World) WriteUpdate(peer string, sess int, g int64, body []byte) (id int, err error) {
	wr := w.Writer(peer, sess)
	if wr == nil {
		return -1, nil
	}
	id = w.SessionID(peer, sess)
	w.Rec.add(Ev{K: "wu+", Peer: peer, N: id, G: g, Data: body})
	err = wr.WriteUpdate(body)
	w.Rec.add(Ev{K: "wu-", Peer: peer, N: id, G: g, Data: body, Err: err != nil})
	return id, err
}

// SessionID maps the sess-th session of the peer's current registration to
// its world-wide session number.
func (w *World) SessionID(peer string, sess int) int {
	w.mu.Lock()
	ps := w.peers[peer]
	w.mu.Unlock()
	if ps == nil {
		return -1
	}
	ps.mu.Lock()
	defer ps.mu.Unlock()
	if sess < 0 || sess >= len(ps.sessIDs) {
		return -1
	}
	return ps.sessIDs[sess]
}

// RetainedIntact checks that every slice the handler was given still has the
// content it had when delivered, and that no two of them share memory.
func (w *World) RetainedIntact() string {
	w.mu.Lock()
	defer w.mu.Unlock()
	for name, ps := range w.peers {
		ps.mu.Lock()
		for i, r := range ps.retained {
			if string(r.orig) != string(r.copy) {
				ps.mu.Unlock()
				return fmt.Sprintf("peer %s: slice %d handed to the plugin (UPDATE body / capability value) was modified after delivery: now %x, was %x", name, i, clip(r.orig), clip(r.copy))
			}
		}
		for i := range ps.retained {
			for j := i + 1; j < len(ps.retained); j++ {
				a, b := ps.retained[i].orig, ps.retained[j].orig
				if len(a) > 0 && len(b) > 0 && overlap(a, b) {
					ps.mu.Unlock()
					return fmt.Sprintf("peer %s: slices %d and %d handed to the plugin share memory", name, i, j)
				}
			}
		}
		ps.mu.Unlock()
	}
	return ""
}

func overlap(a, b []byte) bool {
	a0 := uintptrOf(a)
	b0 := uintptrOf(b)
	return a0 < b0+uintptr(len(b)) && b0 < a0+uintptr(len(a))
}

func clip(b []byte) []byte {
	if len(b) > 32 {
		return b[:32]
	}
	return b
}

// ---------------------------------------------------------------- plugin

type plugin struct {
	w  *World
	ps *peerState
}

func (p *plugin) sleep(which string) {
	if d := p.ps.spec.Plugin.SleepNs[which]; d > 0 {
		time.Sleep(time.Duration(d))
	}
	if us := p.ps.spec.Plugin.SpinUs[which]; us > 0 {
		Spin(us)
	}
}

func nonceCap(code uint8, n uint32) wire.Cap {
	return wire.Cap{Code: code, Value: []byte{byte(n >> 24), byte(n >> 16), byte(n >> 8), byte(n)}}
}

// NonceOf extracts the nonce capability from a capability list (-1 if absent).
func NonceOf(caps []wire.Cap) int {
	for _, c := range caps {
		if c.Code == NonceCapCode && len(c.Value) == 4 {
			return int(uint32(c.Value[0])<<24 | uint32(c.Value[1])<<16 | uint32(c.Value[2])<<8 | uint32(c.Value[3]))
		}
	}
	return -1
}

func (p *plugin) GetCapabilities(pc corebgp.PeerConfig) []corebgp.Capability {
	n := int(p.w.capsCalls.Add(1))
	p.w.Rec.add(Ev{K: "caps+", Peer: pc.RemoteAddress.String(), N: n})
	p.sleep("caps")
	var out []corebgp.Capability
	if n <= p.ps.spec.Plugin.BigCapsFirst {
		p.w.Rec.add(Ev{K: "caps-", Peer: pc.RemoteAddress.String(), N: n})
		return []corebgp.Capability{{Code: 200, Value: make([]byte, 256)}}
	}
	if p.ps.spec.Plugin.SharedCaps {
		p.ps.mu.Lock()
		if p.ps.shared == nil {
			p.ps.shared = make([]corebgp.Capability, 0, len(p.ps.spec.Plugin.Caps)+3)
			for _, c := range p.ps.spec.Plugin.Caps {
				p.ps.shared = append(p.ps.shared, corebgp.Capability{Code: c.Code, Value: append([]byte(nil), c.Value...)})
			}
		} else if p.ps.spec.Plugin.MutateShared {
			for i := range p.ps.shared {
				if len(p.ps.shared[i].Value) > 0 {
					p.ps.shared[i].Value[0]++
				}
			}
		}
		out = p.ps.shared
		var cp []wire.Cap
		if p.ps.spec.Plugin.MutateShared {
			for _, c := range out {
				cp = append(cp, wire.Cap{Code: c.Code, Value: append([]byte(nil), c.Value...)})
			}
		}
		p.ps.mu.Unlock()
		p.w.Rec.add(Ev{K: "caps-", Peer: pc.RemoteAddress.String(), N: n, Caps: cp})
		return out
	}
	for _, c := range p.ps.spec.Plugin.Caps {
		out = append(out, corebgp.Capability{Code: c.Code, Value: append([]byte(nil), c.Value...)})
	}
	if !p.ps.spec.Plugin.NoNonce {
		nc := nonceCap(NonceCapCode, uint32(n))
		out = append(out, corebgp.Capability{Code: nc.Code, Value: nc.Value})
	}
	p.w.Rec.add(Ev{K: "caps-", Peer: pc.RemoteAddress.String(), N: n})
	return out
}

func (p *plugin) OnOpenMessage(pc corebgp.PeerConfig, routerID netip.Addr, caps []corebgp.Capability) *corebgp.Notification {
	var wc []wire.Cap
	for _, c := range caps {
		cp := append([]byte(nil), c.Value...)
		wc = append(wc, wire.Cap{Code: c.Code, Value: cp})
		if len(c.Value) > 0 {
			// keep the slice corebgp handed over: it must not change afterwards
			p.ps.mu.Lock()
			p.ps.retained = append(p.ps.retained, retained{orig: c.Value, copy: cp})
			p.ps.mu.Unlock()
		}
	}
	peer := pc.RemoteAddress.String()
	p.w.Rec.add(Ev{K: "open+", Peer: peer, N: NonceOf(wc), Caps: wc, ID: routerID.String()})
	p.sleep("open")
	n := p.ps.spec.Plugin.OpenNotif.core()
	p.w.Rec.add(Ev{K: "open-", Peer: peer, N: NonceOf(wc)})
	return n
}

func (p *plugin) OnEstablished(pc corebgp.PeerConfig, wr corebgp.UpdateMessageWriter) corebgp.UpdateMessageHandler {
	peer := pc.RemoteAddress.String()
	sess := int(p.w.sessCtr.Add(1)) - 1 // world-wide session number
	p.ps.mu.Lock()
	local := p.ps.sessions
	p.ps.sessions++
	p.ps.sessIDs = append(p.ps.sessIDs, sess)
	p.ps.writers = append(p.ps.writers, wr)
	p.ps.mu.Unlock()
	p.w.Rec.add(Ev{K: "est+", Peer: peer, N: sess})
	p.sleep("est")
	for _, b := range p.ps.spec.Plugin.WriteInEst {
		p.callbackWrite(wr, peer, sess, -1, b)
	}
	_ = local
	p.w.Rec.add(Ev{K: "est-", Peer: peer, N: sess})
	if p.ps.spec.Plugin.NilHandler {
		return nil
	}
	calls := 0
	return func(pc corebgp.PeerConfig, u []byte) *corebgp.Notification {
		calls++
		cp := append([]byte(nil), u...)
		p.ps.mu.Lock()
		p.ps.retained = append(p.ps.retained, retained{orig: u, copy: cp})
		p.ps.mu.Unlock()
		p.w.Rec.add(Ev{K: "upd+", Peer: peer, N: sess, Data: cp})
		p.sleep("upd")
		if calls == 1 {
			for _, b := range p.ps.spec.Plugin.WriteInUpd {
				p.callbackWrite(wr, peer, sess, -2, b)
			}
		}
		var n *corebgp.Notification
		if p.ps.spec.Plugin.HandlerNotifOn == calls {
			n = p.ps.spec.Plugin.HandlerNotif.core()
		}
		// a "magic" UPDATE makes the handler return the Notification it spells out
		if len(u) >= 6 && u[0] == 0xEE && u[1] == 'N' && u[2] == 'O' && u[3] == 'T' {
			n = &corebgp.Notification{Code: u[4], Subcode: u[5], Data: append([]byte(nil), u[6:]...)}
		}
		p.w.Rec.add(Ev{K: "upd-", Peer: peer, N: sess, Err: n != nil})
		return n
	}
}

// callbackWrite is a WriteUpdate call made from inside a plugin callback.
func (p *plugin) callbackWrite(wr corebgp.UpdateMessageWriter, peer string, sess int, g int64, body []byte) {
	p.w.Rec.add(Ev{K: "wu+", Peer: peer, N: sess, G: g, Data: body})
	err := wr.WriteUpdate(body)
	p.w.Rec.add(Ev{K: "wu-", Peer: peer, N: sess, G: g, Data: body, Err: err != nil})
}

func (p *plugin) OnClose(pc corebgp.PeerConfig) {
	peer := pc.RemoteAddress.String()
	p.ps.mu.Lock()
	sess := -1
	var wr corebgp.UpdateMessageWriter
	if n := len(p.ps.sessIDs); n > 0 {
		sess = p.ps.sessIDs[n-1]
		wr = p.ps.writers[n-1]
	}
	p.ps.mu.Unlock()
	p.w.Rec.add(Ev{K: "close+", Peer: peer, N: sess})
	p.sleep("close")
	for _, b := range p.ps.spec.Plugin.WriteInClose {
		if wr != nil {
			p.callbackWrite(wr, peer, sess, -3, b)
		}
	}
	p.w.Rec.add(Ev{K: "close-", Peer: peer, N: sess})
}

// ---------------------------------------------------------------- remote speaker helpers

// RemoteOpen is the OPEN a well-behaved remote for peer p sends on conn c:
// its AS is p.RemoteAS, and it carries the connection nonce capability.
func RemoteOpen(p PeerSpec, c *memnet.Conn, hold uint16, id uint32, extra ...wire.Cap) wire.Open {
	caps := append([]wire.Cap{}, extra...)
	caps = append(caps, nonceCap(NonceCapCode, uint32(c.ID)))
	return wire.NewOpen(p.RemoteAS, hold, id, caps...)
}

// Parsed returns the messages corebgp wrote on the connection and the strict
// parser's verdict on the whole byte stream.
func Parsed(c *memnet.Conn) ([]wire.Msg, error) {
	return wire.ParseStream(c.Snapshot().Bytes())
}

// ---------------------------------------------------------------- running a bubble

// Outcome describes how the bubble ended.
type Outcome struct {
	// Deadlock is the synctest panic text if the bubble deadlocked or leaked
	// blocked goroutines, with a goroutine dump.
	Deadlock string
	// Panic is any other panic raised on the bubble's root goroutine.
	Panic string
	// Stalled is set when the bubble did not finish within the wall-clock
	// watchdog (a goroutine blocked on a mutex, or a livelock).
	Stalled bool
	Stacks  string
}

func (o Outcome) Bad() string {
	switch {
	case o.Stalled:
		return "wall-clock stall (mutex wedge or livelock):\n" + o.Stacks
	case o.Deadlock != "":
		return o.Deadlock + "\n" + o.Stacks
	case o.Panic != "":
		return "panic in harness goroutine: " + o.Panic + "\n" + o.Stacks
	}
	return ""
}

// ErrStall is returned via Outcome.Stalled.
var ErrStall = errors.New("stall")

// Run executes f inside a fresh bubble and reports how the bubble ended. f
// must not call t.Fatal; it communicates through captured variables.
func Run(t *testing.T, f func()) (out Outcome) {
	done := make(chan Outcome, 1)
	go func() {
		var o Outcome
		defer func() { done <- o }()
		defer func() {
			if p := recover(); p != nil {
				s := fmt.Sprint(p)
				if strings.HasPrefix(s, "deadlock:") {
					o.Deadlock = s
				} else {
					o.Panic = s
				}
				o.Stacks = bubbleStacks()
			}
		}()
		synctest.Test(t, func(t *testing.T) { f() })
	}()
	wd := time.NewTimer(watchdog)
	defer wd.Stop()
	select {
	case o := <-done:
		return o
	case <-wd.C:
		return Outcome{Stalled: true, Stacks: bubbleStacks()}
	}
}

var watchdog = 30 * time.Second

// bubbleStacks returns the stacks of goroutines that belong to a bubble and
// run corebgp or harness code (trimmed).
func bubbleStacks() string {
	buf := make([]byte, 1<<20)
	n := runtime.Stack(buf, true)
	var keep []string
	for _, g := range strings.Split(string(buf[:n]), "\n\n") {
		if strings.Contains(g, "synctest bubble") && (strings.Contains(g, "corebgp") || strings.Contains(g, "verif/sim")) {
			if len(g) > 1500 {
				g = g[:1500]
			}
			keep = append(keep, g)
		}
		if len(keep) >= 12 {
			break
		}
	}
	return strings.Join(keep, "\n\n")
}

// Dump renders the event log and the per-connection wire logs for failure
// messages.
func (w *World) Dump() string {
	var sb strings.Builder
	for _, e := range w.Rec.Events() {
		fmt.Fprintf(&sb, "  #%d t=%v %s peer=%s n=%d %s", e.Seq, e.T, e.K, e.Peer, e.N, e.Info)
		if len(e.Data) > 0 {
			fmt.Fprintf(&sb, " data=%x", clip(e.Data))
		}
		sb.WriteString("\n")
	}
	for _, c := range w.Net.Conns() {
		st := c.Snapshot()
		dir := "out"
		if st.Inbound {
			dir = "in"
		}
		fmt.Fprintf(&sb, "  conn %d %s %v->%v handed=%v localClosed=%v(#%d t=%v) remoteClosed=%v reset=%v consumed=%d/%d\n", st.ID, dir, st.Remote, st.Local, st.HandedOver, st.LocalClosed, st.CloseSeq, st.CloseAt, st.RemoteClosed, st.RemoteReset, st.Consumed, st.Delivered)
		msgs, err := wire.ParseStream(st.Bytes())
		for _, m := range msgs {
			fmt.Fprintf(&sb, "    sent type=%d len=%d %x\n", m.Type, len(m.Body), clip(m.Body))
		}
		if err != nil {
			fmt.Fprintf(&sb, "    stream error: %v\n", err)
		}
	}
	for _, d := range w.Net.Dials() {
		fmt.Fprintf(&sb, "  dial #%d t=%v -> %v plan=%v done=%v at %v cancelled=%v err=%s\n", d.Seq, d.At, d.Remote, d.Plan.Kind, d.Done, d.DoneAt, d.Cancelled, d.Err)
	}
	s := sb.String()
	if len(s) > 6000 {
		s = s[:6000] + "...\n"
	}
	return s
}

// MagicUpdate is an UPDATE body that makes the recording plugin's handler
// return the given Notification.
func MagicUpdate(code, sub uint8, data []byte) []byte {
	return append([]byte{0xEE, 'N', 'O', 'T', code, sub}, data...)
}
