package world

import (
	"fmt"
	"testing"
	"time"

	"verif/sim/memnet"
	"verif/sim/wire"
)

// DialedConn returns the k-th connection (0-based) that the dial registry
// created for the remote, or nil.
func (w *World) DialedConn(remote string, k int) *memnet.Conn {
	n := 0
	for _, d := range w.Net.Dials() {
		if d.Remote.String() == remote && d.Conn != nil {
			if n == k {
				return d.Conn
			}
			n++
		}
	}
	return nil
}

// LocalFor is the destination address an inbound connection for p uses.
func LocalFor(p PeerSpec) string {
	if p.Local != "" {
		return p.Local
	}
	if p.RemoteAddr().Is4() {
		return "10.0.0.1"
	}
	return "fd00::1"
}

// Single runs a one-peer world: the server is started, one connection of the
// requested direction is brought to the point where corebgp has sent its OPEN
// (OpenSent), then body runs, then the world is shut down. setupErr reports
// a harness-level failure to reach OpenSent (itself a finding for the caller
// to classify).
func Single(t *testing.T, routerID string, p PeerSpec, out bool, delays []int64, body func(w *World, c *memnet.Conn)) (o Outcome, setupErr error) {
	o = Run(t, func() {
		w, err := New(routerID, delays)
		if err != nil {
			setupErr = err
			return
		}
		if out {
			w.Net.SetPlans(p.RemoteAddr(), memnet.DialPlan{Kind: memnet.Accept}, memnet.DialPlan{Kind: memnet.Refuse})
		}
		if err := w.AddPeer(p); err != nil {
			setupErr = fmt.Errorf("AddPeer: %w", err)
			return
		}
		w.Serve()
		w.Settle()
		var c *memnet.Conn
		if out {
			c = w.DialedConn(p.Remote, 0)
			if c == nil {
				setupErr = fmt.Errorf("corebgp did not dial %s after Serve", p.Remote)
				w.Finish()
				return
			}
		} else {
			c = w.Inbound(p.Remote, LocalFor(p))
			w.Settle()
		}
		body(w, c)
		w.Finish()
	})
	return o, setupErr
}

// PrevSession is an earlier session of the peer under test (on the outbound
// direction: of the same FSM object): Established with the given remote hold
// time, then ended by the remote with a TCP close ("fin"), a Cease ("cease") or a
// Cease with a faulty header glued behind it ("cease+junk"), or by corebgp itself after the
// update handler returned a Cease ("handler-cease").
type PrevSession struct {
	Hold uint16 `json:"hold"`
	End  string `json:"end"`
	// In: with an outbound session under test, this earlier session is an inbound one
	In bool `json:"in,omitempty"`
}

// SinglePrev is Single preceded by earlier sessions. They use the direction of the session
// under test, except that, when that is outbound, an earlier session marked In arrives as an
// inbound connection (the dials are refused meanwhile): what the inbound slot of the peer went
// through must have no bearing on the outbound connection either.
func SinglePrev(t *testing.T, routerID string, p PeerSpec, out bool, delays []int64, prev []PrevSession, body func(w *World, c *memnet.Conn)) (o Outcome, setupErr error) {
	if len(prev) == 0 {
		return Single(t, routerID, p, out, delays, body)
	}
	o = Run(t, func() {
		w, err := New(routerID, delays)
		if err != nil {
			setupErr = err
			return
		}
		defer w.Finish()
		// dirOut[k]: session k (the last is the one under test) comes about by an accepted dial
		dirOut := make([]bool, len(prev)+1)
		for k := range dirOut {
			dirOut[k] = out && !(k < len(prev) && prev[k].In)
		}
		plan := func(k int) {
			if !out {
				return
			}
			if dirOut[k] {
				w.Net.SetPlans(p.RemoteAddr(), memnet.DialPlan{Kind: memnet.Accept}, memnet.DialPlan{Kind: memnet.Refuse})
			} else {
				w.Net.SetPlans(p.RemoteAddr(), memnet.DialPlan{Kind: memnet.Refuse})
			}
		}
		plan(0)
		if err := w.AddPeer(p); err != nil {
			setupErr = fmt.Errorf("AddPeer: %w", err)
			return
		}
		w.Serve()
		w.Settle()
		seen := 0 // dial attempts looked at so far
		get := func(k int) *memnet.Conn {
			if !dirOut[k] {
				c := w.Inbound(p.Remote, LocalFor(p))
				w.Settle()
				seen = len(w.Net.Dials())
				return c
			}
			// the next accepted dial (attempts made under a refusing plan are skipped)
			for tries := 0; tries < 8; tries++ {
				ds := w.Net.Dials()
				for ; seen < len(ds); seen++ {
					if ds[seen].Conn != nil {
						seen++
						return ds[seen-1].Conn
					}
				}
				if !w.Net.WaitDials(len(ds)+1, 10*time.Minute) {
					return nil
				}
				w.Settle()
			}
			return nil
		}
		for k, ps := range prev {
			c := get(k)
			if c == nil {
				setupErr = fmt.Errorf("no connection for earlier session %d", k)
				return
			}
			id := uint32(0x0a000002)
			if routerID == "10.0.0.2" {
				id++ // never the local identifier
			}
			Handshake(w, p, c, ps.Hold, id)
			if w.Sessions(p.Remote) != k+1 {
				setupErr = fmt.Errorf("earlier session %d (remote hold %d) did not establish", k, ps.Hold)
				return
			}
			plan(k + 1) // the dial that follows the end of this session already belongs to the next
			switch ps.End {
			case "cease":
				c.RemoteSend(wire.Notif{Code: 6, Sub: 4}.Frame(), nil)
				w.Settle()
			case "handler-cease":
				// corebgp itself ends the session: the update handler returns a Cease
				// (no damping), corebgp sends it and closes
				c.RemoteSend(wire.Frame(wire.TypeUpdate, MagicUpdate(6, 2, nil)), nil)
				w.Settle()
			case "cease+junk":
				// a header with a bad marker right behind the Cease, in the same
				// segment: the session ends with the Cease, the rest is never
				// looked at - and must not be remembered either
				junk := wire.Keepalive()
				junk[5] = 0
				c.RemoteSend(append(wire.Notif{Code: 6, Sub: 4}.Frame(), junk...), nil)
				w.Settle()
			}
			c.RemoteClose()
			w.Settle()
		}
		c := get(len(prev))
		if c == nil {
			setupErr = fmt.Errorf("no connection after %d earlier sessions", len(prev))
			return
		}
		body(w, c)
	})
	return o, setupErr
}

// Handshake performs the remote side of a normal handshake on c with the
// given hold time and identifier, leaving the session Established.
func Handshake(w *World, p PeerSpec, c *memnet.Conn, hold uint16, id uint32) {
	c.RemoteSend(RemoteOpen(p, c, hold, id).Frame(), nil)
	w.Settle()
	c.RemoteSend(wire.Keepalive(), nil)
	w.Settle()
}
