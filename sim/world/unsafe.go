package world

import "unsafe"

func uintptrOf(b []byte) uintptr { return uintptr(unsafe.Pointer(unsafe.SliceData(b))) }
