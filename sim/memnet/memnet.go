// Package memnet is an in-memory model of TCP for driving corebgp inside a
// testing/synctest bubble. All blocking is on sync.Cond / bubble channels so a
// blocked goroutine is "durably blocked" and virtual time can advance.
//
// A Conn is the endpoint handed to corebgp. The remote endpoint is not a
// net.Conn: the test acts for the remote through RemoteSend / RemoteClose /
// RemoteReset and reads what corebgp wrote from the write log.
package memnet

import (
	"context"
	"errors"
	"io"
	"net"
	"net/netip"
	"os"
	"runtime"
	"sync"
	"sync/atomic"
	"syscall"
	"time"
)

// Net is one simulated network: a sequence counter shared by every recorded
// event, the connections created so far and the dial registry.
type Net struct {
	seq   atomic.Int64
	start time.Time

	mu      sync.Mutex
	cond    *sync.Cond // signalled when a dial attempt starts or finishes
	conns   []*Conn
	dials   []*DialAttempt
	plans   map[netip.Addr][]DialPlan // queue per remote; last one is sticky
	defPlan DialPlan

	writeSpinUs atomic.Int64 // > 0: every Conn.Write is slow (see Conn.Write)
}

// SetWriteSpin makes every Write on every connection take us microseconds of
// real time before the caller's buffer is copied (0 switches it off).
func (n *Net) SetWriteSpin(us int64) { n.writeSpinUs.Store(us) }

// New creates a network; call it inside the bubble so that Since() is
// relative to the bubble's clock.
func New() *Net {
	n := &Net{
		start:   time.Now(),
		plans:   map[netip.Addr][]DialPlan{},
		defPlan: DialPlan{Kind: Refuse},
	}
	n.cond = sync.NewCond(&n.mu)
	return n
}

// WaitDials blocks (durably: virtual time advances) until at least count
// dial attempts have started, or limit of virtual time has passed.
func (n *Net) WaitDials(count int, limit time.Duration) bool {
	return n.waitFor(limit, func() bool { return len(n.dials) >= count })
}

// WaitDialDone blocks until the idx-th dial attempt (0-based) has finished.
func (n *Net) WaitDialDone(idx int, limit time.Duration) bool {
	return n.waitFor(limit, func() bool { return len(n.dials) > idx && n.dials[idx].Done })
}

func (n *Net) waitFor(limit time.Duration, pred func() bool) bool {
	deadline := time.Now().Add(limit)
	t := time.AfterFunc(limit, func() {
		n.mu.Lock()
		n.cond.Broadcast()
		n.mu.Unlock()
	})
	defer t.Stop()
	n.mu.Lock()
	defer n.mu.Unlock()
	for !pred() {
		if !time.Now().Before(deadline) {
			return false
		}
		n.cond.Wait()
	}
	return true
}

// NextSeq returns the next global logical sequence number.
func (n *Net) NextSeq() int64 { return n.seq.Add(1) }

// Since returns the virtual time elapsed since the network was created.
func (n *Net) Since() time.Duration { return time.Since(n.start) }

// Conns returns all connections created so far, in creation order.
func (n *Net) Conns() []*Conn {
	n.mu.Lock()
	defer n.mu.Unlock()
	return append([]*Conn(nil), n.conns...)
}

// Write is one Write call made by corebgp on a connection.
type Write struct {
	Seq  int64
	At   time.Duration
	Data []byte
	// AfterRemoteGone is set when the remote had already closed or reset the
	// connection: the bytes never reached anybody, but corebgp tried.
	AfterRemoteGone bool
	// Failed is set when Write returned an error (local end already closed,
	// or connection reset).
	Failed bool
}

// Conn is the corebgp-side endpoint of a simulated TCP connection.
type Conn struct {
	wmu      sync.Mutex // serialises slow writes
	rdl, wdl time.Time  // read / write deadlines
	rdlTimer *time.Timer
	wdlTimer *time.Timer

	stallMode bool  // StallWrites was used: writes go through writeStalled
	stallRoom int64 // octets the remote still takes (-1: no limit)
	writing   bool  // a Write is in progress (stalled mode)
	ID        int
	Inbound   bool // accepted by corebgp's listener (remote initiated)
	net       *Net
	local     *net.TCPAddr
	remote    *net.TCPAddr
	Created   time.Duration
	CreatedS  int64

	mu           sync.Mutex
	cond         *sync.Cond
	inq          [][]byte
	consumed     int64 // bytes handed to Read callers
	delivered    int64 // bytes queued by the remote
	remoteClosed bool
	remoteReset  bool
	localClosed  bool
	closeAt      time.Duration
	closeSeq     int64
	writes       []Write
	handedOver   bool // given to corebgp (Accept returned it / dial returned it)
}

func (n *Net) newConn(inbound bool, local, remote *net.TCPAddr) *Conn {
	c := &Conn{
		Inbound:  inbound,
		net:      n,
		local:    local,
		remote:   remote,
		Created:  n.Since(),
		CreatedS: n.NextSeq(),
	}
	c.cond = sync.NewCond(&c.mu)
	n.mu.Lock()
	c.ID = len(n.conns)
	n.conns = append(n.conns, c)
	n.mu.Unlock()
	return c
}

var errClosed = net.ErrClosed

// Read implements net.Conn. It never merges chunks: the remote's chunking is
// the segmentation the reader sees.
func (c *Conn) Read(p []byte) (int, error) {
	c.mu.Lock()
	defer c.mu.Unlock()
	for {
		if c.localClosed {
			return 0, &net.OpError{Op: "read", Net: "tcp", Err: errClosed}
		}
		if c.remoteReset {
			return 0, &net.OpError{Op: "read", Net: "tcp", Err: syscall.ECONNRESET}
		}
		if len(c.inq) > 0 {
			if len(p) == 0 {
				return 0, nil
			}
			ch := c.inq[0]
			k := copy(p, ch)
			if k == len(ch) {
				c.inq = c.inq[1:]
			} else {
				c.inq[0] = ch[k:]
			}
			c.consumed += int64(k)
			return k, nil
		}
		if c.remoteClosed {
			return 0, io.EOF
		}
		if !c.rdl.IsZero() && !time.Now().Before(c.rdl) {
			return 0, &net.OpError{Op: "read", Net: "tcp", Err: timeoutError{}}
		}
		c.cond.Wait()
	}
}

// StallWrites models a remote that stops reading: corebgp's writes on this
// connection are accepted for room more octets (the send buffer and the
// remote's window), then block - one Write at a time, as the fd write lock
// arranges - until ResumeWrites, a local Close, a reset or the write deadline.
// A Write interrupted by the deadline has delivered part of its buffer.
func (c *Conn) StallWrites(room int) {
	c.mu.Lock()
	c.stallMode = true
	c.stallRoom = int64(room)
	if !c.wdl.IsZero() && c.wdlTimer == nil {
		c.wdlTimer = time.AfterFunc(time.Until(c.wdl), func() {
			c.mu.Lock()
			c.cond.Broadcast()
			c.mu.Unlock()
		})
	}
	c.mu.Unlock()
}

// ResumeWrites lets the remote read again.
func (c *Conn) ResumeWrites() {
	c.mu.Lock()
	c.stallRoom = -1
	c.cond.Broadcast()
	c.mu.Unlock()
}

func (c *Conn) writeErrLocked() error {
	switch {
	case c.localClosed:
		return &net.OpError{Op: "write", Net: "tcp", Err: errClosed}
	case c.remoteReset:
		return &net.OpError{Op: "write", Net: "tcp", Err: syscall.ECONNRESET}
	case !c.wdl.IsZero() && !time.Now().Before(c.wdl):
		return &net.OpError{Op: "write", Net: "tcp", Err: timeoutError{}}
	}
	return nil
}

// writeStalled is Write once StallWrites has been used on the connection. All
// waiting is on the condition variable (durably blocking inside a bubble).
func (c *Conn) writeStalled(p []byte) (int, error) {
	c.mu.Lock()
	defer c.mu.Unlock()
	for c.writing {
		if err := c.writeErrLocked(); err != nil {
			c.writes = append(c.writes, Write{Seq: c.net.NextSeq(), At: c.net.Since(), Failed: true})
			return 0, err
		}
		c.cond.Wait()
	}
	c.writing = true
	defer func() {
		c.writing = false
		c.cond.Broadcast()
	}()
	n := 0
	for n < len(p) {
		if err := c.writeErrLocked(); err != nil {
			c.writes = append(c.writes, Write{Seq: c.net.NextSeq(), At: c.net.Since(), Failed: true})
			return n, err
		}
		room := len(p) - n
		if c.stallRoom >= 0 && int64(room) > c.stallRoom {
			room = int(c.stallRoom)
		}
		if room > 0 {
			c.writes = append(c.writes, Write{Seq: c.net.NextSeq(), At: c.net.Since(), Data: append([]byte(nil), p[n:n+room]...), AfterRemoteGone: c.remoteClosed})
			n += room
			if c.stallRoom >= 0 {
				c.stallRoom -= int64(room)
			}
			c.cond.Broadcast()
			continue
		}
		c.cond.Wait()
	}
	return n, nil
}

// Write implements net.Conn: atomic, one log entry per call.
func (c *Conn) Write(p []byte) (int, error) {
	c.mu.Lock()
	stalled := c.stallMode
	c.mu.Unlock()
	if stalled {
		return c.writeStalled(p)
	}
	if us := c.net.writeSpinUs.Load(); us > 0 {
		// a slow kernel write: concurrent Writes on one connection are
		// serialised (as the fd write lock does) and the caller's buffer is
		// only copied after a while - a caller that shares or reuses the
		// buffer meanwhile corrupts what goes on the wire
		c.wmu.Lock()
		defer c.wmu.Unlock()
		Spin(us)
	}
	c.mu.Lock()
	defer c.mu.Unlock()
	w := Write{Seq: c.net.NextSeq(), At: c.net.Since(), Data: append([]byte(nil), p...)}
	switch {
	case !c.localClosed && !c.wdl.IsZero() && !time.Now().Before(c.wdl):
		// an expired write deadline fails every write at once
		w.Failed = true
		c.writes = append(c.writes, w)
		return 0, &net.OpError{Op: "write", Net: "tcp", Err: timeoutError{}}
	case c.localClosed:
		w.Failed = true
		c.writes = append(c.writes, w)
		return 0, &net.OpError{Op: "write", Net: "tcp", Err: errClosed}
	case c.remoteReset:
		w.Failed = true
		w.AfterRemoteGone = true
		c.writes = append(c.writes, w)
		return 0, &net.OpError{Op: "write", Net: "tcp", Err: syscall.ECONNRESET}
	case c.remoteClosed:
		// like TCP after the peer's FIN: the first writes are accepted by the
		// kernel, nobody reads them
		w.AfterRemoteGone = true
	}
	c.writes = append(c.writes, w)
	c.cond.Broadcast() // wake a reactive remote waiting in WaitWrites
	return len(p), nil
}

// WaitWrites blocks (durably) until corebgp has made at least n successful
// writes on the connection, or closed its end, or limit of virtual time has
// passed. It returns the number of successful writes so far and whether the
// local end is closed. It lets a scripted remote react to corebgp at machine
// speed, without the test's root goroutine stepping in.
func (c *Conn) WaitWrites(n int, limit time.Duration) (int, bool) {
	deadline := time.Now().Add(limit)
	t := time.AfterFunc(limit, func() {
		c.mu.Lock()
		c.cond.Broadcast()
		c.mu.Unlock()
	})
	defer t.Stop()
	c.mu.Lock()
	defer c.mu.Unlock()
	for {
		k := 0
		for _, w := range c.writes {
			if !w.Failed {
				k++
			}
		}
		if k >= n || c.localClosed || !time.Now().Before(deadline) {
			return k, c.localClosed
		}
		c.cond.Wait()
	}
}

// WaitLocalClosed blocks (durably) until corebgp closed its end or limit of
// virtual time has passed.
func (c *Conn) WaitLocalClosed(limit time.Duration) bool {
	deadline := time.Now().Add(limit)
	t := time.AfterFunc(limit, func() {
		c.mu.Lock()
		c.cond.Broadcast()
		c.mu.Unlock()
	})
	defer t.Stop()
	c.mu.Lock()
	defer c.mu.Unlock()
	for !c.localClosed && time.Now().Before(deadline) {
		c.cond.Wait()
	}
	return c.localClosed
}

// Close implements net.Conn (orderly close of the local end).
func (c *Conn) Close() error {
	c.mu.Lock()
	defer c.mu.Unlock()
	if c.localClosed {
		return &net.OpError{Op: "close", Net: "tcp", Err: errClosed}
	}
	c.localClosed = true
	c.closeAt = c.net.Since()
	c.closeSeq = c.net.NextSeq()
	c.cond.Broadcast()
	return nil
}

func (c *Conn) LocalAddr() net.Addr  { return c.local }
func (c *Conn) RemoteAddr() net.Addr { return c.remote }

// Deadlines behave as on a real net.Conn: absolute instants (virtual time
// inside the bubble) that apply to all future and pending calls until changed;
// the zero time clears them. corebgp itself sets none on the pinned tree.
func (c *Conn) SetDeadline(t time.Time) error {
	c.SetReadDeadline(t)
	return c.SetWriteDeadline(t)
}

func (c *Conn) SetReadDeadline(t time.Time) error {
	c.mu.Lock()
	defer c.mu.Unlock()
	c.rdl = t
	if c.rdlTimer != nil {
		c.rdlTimer.Stop()
		c.rdlTimer = nil
	}
	if !t.IsZero() {
		c.rdlTimer = time.AfterFunc(time.Until(t), func() {
			c.mu.Lock()
			c.cond.Broadcast()
			c.mu.Unlock()
		})
	}
	c.cond.Broadcast()
	return nil
}

func (c *Conn) SetWriteDeadline(t time.Time) error {
	c.mu.Lock()
	defer c.mu.Unlock()
	c.wdl = t
	if c.wdlTimer != nil {
		c.wdlTimer.Stop()
		c.wdlTimer = nil
	}
	if !t.IsZero() && c.stallMode {
		c.wdlTimer = time.AfterFunc(time.Until(t), func() {
			c.mu.Lock()
			c.cond.Broadcast()
			c.mu.Unlock()
		})
	}
	c.cond.Broadcast()
	return nil
}

type timeoutError struct{}

func (timeoutError) Error() string   { return "i/o timeout" }
func (timeoutError) Timeout() bool   { return true }
func (timeoutError) Temporary() bool { return true }
func (timeoutError) Is(err error) bool {
	return err == os.ErrDeadlineExceeded
}

// RemoteSend queues b for the reader, split at the given cut offsets (strictly
// increasing, within (0,len(b))); each piece is one chunk. It never blocks.
// It reports false if the connection can no longer carry data.
func (c *Conn) RemoteSend(b []byte, cuts []int) bool {
	c.mu.Lock()
	defer c.mu.Unlock()
	if c.remoteClosed || c.remoteReset || c.localClosed {
		return false
	}
	prev := 0
	for _, k := range cuts {
		if k <= prev || k >= len(b) {
			continue
		}
		c.inq = append(c.inq, append([]byte(nil), b[prev:k]...))
		prev = k
	}
	if prev < len(b) {
		c.inq = append(c.inq, append([]byte(nil), b[prev:]...))
	}
	c.delivered += int64(len(b))
	c.cond.Broadcast()
	return true
}

// RemoteClose is an orderly close by the remote: the reader drains queued
// data, then sees EOF.
func (c *Conn) RemoteClose() {
	c.mu.Lock()
	defer c.mu.Unlock()
	c.remoteClosed = true
	c.cond.Broadcast()
}

// RemoteReset is an abortive close: unread data is dropped, reads and writes
// fail with ECONNRESET.
func (c *Conn) RemoteReset() {
	c.mu.Lock()
	defer c.mu.Unlock()
	c.remoteReset = true
	c.inq = nil
	c.cond.Broadcast()
}

// State is a snapshot of a connection for the oracles.
type State struct {
	ID           int
	CreatedS     int64 // sequence number at creation
	Created      time.Duration
	Inbound      bool
	Local        netip.AddrPort
	Remote       netip.AddrPort
	LocalClosed  bool
	CloseAt      time.Duration
	CloseSeq     int64
	RemoteClosed bool
	RemoteReset  bool
	Consumed     int64
	Delivered    int64
	Writes       []Write
	HandedOver   bool
}

// Snapshot returns a copy of the connection's state and write log.
func (c *Conn) Snapshot() State {
	c.mu.Lock()
	defer c.mu.Unlock()
	return State{
		ID:           c.ID,
		CreatedS:     c.CreatedS,
		Created:      c.Created,
		Inbound:      c.Inbound,
		Local:        c.local.AddrPort(),
		Remote:       c.remote.AddrPort(),
		LocalClosed:  c.localClosed,
		CloseAt:      c.closeAt,
		CloseSeq:     c.closeSeq,
		RemoteClosed: c.remoteClosed,
		RemoteReset:  c.remoteReset,
		Consumed:     c.consumed,
		Delivered:    c.delivered,
		Writes:       append([]Write(nil), c.writes...),
		HandedOver:   c.handedOver,
	}
}

// Bytes returns everything corebgp successfully wrote on the connection
// (including bytes written after the remote had gone away).
func (s State) Bytes() []byte {
	var b []byte
	for _, w := range s.Writes {
		if !w.Failed {
			b = append(b, w.Data...)
		}
	}
	return b
}

// ---------------------------------------------------------------- listener

// Listener hands scripted inbound connections to Server.Serve.
type Listener struct {
	net       *Net
	addr      *net.TCPAddr
	mu        sync.Mutex
	cond      *sync.Cond
	q         []*Conn
	err       error
	closed    bool
	closeSpin int64
}

// NewListener creates a listener bound to addr (only reported by Addr()).
func (n *Net) NewListener(addr netip.AddrPort) *Listener {
	l := &Listener{net: n, addr: net.TCPAddrFromAddrPort(addr)}
	l.cond = sync.NewCond(&l.mu)
	return l
}

func (l *Listener) Accept() (net.Conn, error) {
	l.mu.Lock()
	defer l.mu.Unlock()
	for {
		if l.closed {
			return nil, &net.OpError{Op: "accept", Net: "tcp", Err: errClosed}
		}
		if l.err != nil {
			err := l.err
			l.err = nil
			return nil, err
		}
		if len(l.q) > 0 {
			c := l.q[0]
			l.q = l.q[1:]
			c.mu.Lock()
			c.handedOver = true
			c.mu.Unlock()
			return c, nil
		}
		l.cond.Wait()
	}
}

// SetCloseSpin makes Close busy-wait that long (microseconds) before it takes effect.
func (l *Listener) SetCloseSpin(us int64) {
	l.mu.Lock()
	l.closeSpin = us
	l.mu.Unlock()
}

func (l *Listener) Close() error {
	l.mu.Lock()
	spin := l.closeSpin
	l.mu.Unlock()
	if spin > 0 {
		Spin(spin)
	}
	l.mu.Lock()
	defer l.mu.Unlock()
	l.closed = true
	// connections still in the accept backlog are reset by the kernel when
	// the listening socket goes away
	for _, c := range l.q {
		c.mu.Lock()
		if !c.localClosed {
			c.localClosed = true
			c.closeAt = l.net.Since()
			c.closeSeq = l.net.NextSeq()
		}
		c.mu.Unlock()
	}
	l.q = nil
	l.cond.Broadcast()
	return nil
}

func (l *Listener) Addr() net.Addr { return l.addr }

// Closed reports whether Close was called.
func (l *Listener) Closed() bool {
	l.mu.Lock()
	defer l.mu.Unlock()
	return l.closed
}

// InjectError makes the next Accept fail with err.
func (l *Listener) InjectError(err error) {
	l.mu.Lock()
	defer l.mu.Unlock()
	l.err = err
	l.cond.Broadcast()
}

// Connect creates an inbound connection from src to dst and queues it for
// Accept. It never blocks.
func (l *Listener) Connect(src, dst netip.AddrPort) *Conn {
	c := l.net.newConn(true, net.TCPAddrFromAddrPort(dst), net.TCPAddrFromAddrPort(src))
	l.mu.Lock()
	defer l.mu.Unlock()
	if l.closed {
		// nobody listens: the remote sees a refused connection; model it as
		// an immediately closed one.
		c.mu.Lock()
		c.localClosed = true
		c.closeAt = l.net.Since()
		c.closeSeq = l.net.NextSeq()
		c.mu.Unlock()
		return c
	}
	l.q = append(l.q, c)
	l.cond.Broadcast()
	return c
}

// ---------------------------------------------------------------- dialing

type PlanKind int

const (
	Refuse PlanKind = iota // fail with ECONNREFUSED after Delay (0 = at once)
	Stall                  // block until the context is cancelled
	Accept                 // connection exists at once, returned after Delay
	Hold                   // connection exists at once, returned when Release is called (or fails when the context is cancelled first)
)

func (k PlanKind) String() string {
	switch k {
	case Refuse:
		return "refuse"
	case Stall:
		return "stall"
	case Accept:
		return "accept"
	case Hold:
		return "hold"
	}
	return "?"
}

// DialPlan says how the next dial attempt to a remote is answered.
type DialPlan struct {
	Kind  PlanKind
	Delay time.Duration // virtual time (only safe when no goroutine can be waiting on a mutex meanwhile)
	// SpinUs delays the hand-over of an accepted connection by a real-time
	// busy wait: the TCP handshake has completed (the remote sees the
	// connection), the dialer returns it a little later whatever happens to
	// the context meanwhile - as net.Dialer does when a cancellation loses the
	// race with connect completion.
	SpinUs int64
}

var spinSink uint64

// Spin busy-waits for roughly us microseconds of real time without touching
// the (virtual) clock. Virtual sleeps cannot be used where a goroutine may be
// waiting for a sync.Mutex: it is not durably blocked, so virtual time cannot
// advance and the bubble would wedge artificially.
func Spin(us int64) {
	x := uint64(us) | 1
	for i := int64(0); i < us*600; i++ {
		x = x*6364136223846793005 + 1442695040888963407
		if i&1023 == 0 {
			runtime.Gosched()
		}
	}
	atomic.StoreUint64(&spinSink, x)
}

// DialAttempt records one call of the dial hook.
type DialAttempt struct {
	Seq       int64
	At        time.Duration
	Local     netip.Addr
	Remote    netip.Addr
	Port      int
	Plan      DialPlan
	Done      bool
	DoneAt    time.Duration
	Cancelled bool // the context was done when the attempt finished
	CancelAt  time.Duration
	Conn      *Conn
	Err       string
	release   chan struct{}
}

// SetPlans replaces the queue of plans for a remote. Each attempt consumes
// one plan; the last plan stays in force.
func (n *Net) SetPlans(remote netip.Addr, plans ...DialPlan) {
	n.mu.Lock()
	defer n.mu.Unlock()
	n.plans[remote] = append([]DialPlan(nil), plans...)
}

// SetDefaultPlan sets the plan used for remotes without a queue.
func (n *Net) SetDefaultPlan(p DialPlan) {
	n.mu.Lock()
	defer n.mu.Unlock()
	n.defPlan = p
}

// Dials returns a copy of the dial attempts so far.
func (n *Net) Dials() []DialAttempt {
	n.mu.Lock()
	defer n.mu.Unlock()
	out := make([]DialAttempt, len(n.dials))
	for i, d := range n.dials {
		out[i] = *d
	}
	return out
}

var errRefused = &net.OpError{Op: "dial", Net: "tcp", Err: syscall.ECONNREFUSED}

// Dial is the function installed through corebgp.VerifSetDial.
func (n *Net) Dial(ctx context.Context, local, remote netip.Addr, port int) (net.Conn, error) {
	n.mu.Lock()
	plan := n.defPlan
	if q := n.plans[remote]; len(q) > 0 {
		plan = q[0]
		if len(q) > 1 {
			n.plans[remote] = q[1:]
		}
	}
	a := &DialAttempt{Seq: n.NextSeq(), At: n.Since(), Local: local, Remote: remote, Port: port, Plan: plan, release: make(chan struct{})}
	n.dials = append(n.dials, a)
	n.cond.Broadcast()
	n.mu.Unlock()

	finish := func(c *Conn, err error) (net.Conn, error) {
		n.mu.Lock()
		defer n.mu.Unlock()
		a.Done = true
		a.DoneAt = n.Since()
		n.cond.Broadcast()
		if ctx.Err() != nil {
			a.Cancelled = true
			a.CancelAt = a.DoneAt
		}
		if err != nil {
			a.Err = err.Error()
			return nil, err
		}
		a.Conn = c
		c.mu.Lock()
		c.handedOver = true
		c.mu.Unlock()
		return c, nil
	}

	switch plan.Kind {
	case Refuse:
		if plan.Delay > 0 {
			tm := time.NewTimer(plan.Delay)
			select {
			case <-tm.C:
			case <-ctx.Done():
				tm.Stop()
				return finish(nil, &net.OpError{Op: "dial", Net: "tcp", Err: ctx.Err()})
			}
		}
		return finish(nil, errRefused)
	case Stall:
		<-ctx.Done()
		return finish(nil, &net.OpError{Op: "dial", Net: "tcp", Err: ctx.Err()})
	case Accept, Hold:
		la := local
		if !la.IsValid() {
			if remote.Is4() {
				la = netip.MustParseAddr("10.255.255.1")
			} else {
				la = netip.MustParseAddr("fd00::ffff:1")
			}
		}
		c := n.newConn(false,
			net.TCPAddrFromAddrPort(netip.AddrPortFrom(la, uint16(40000+int(a.Seq)%20000))),
			net.TCPAddrFromAddrPort(netip.AddrPortFrom(remote, uint16(port))))
		n.mu.Lock()
		a.Conn = c
		n.mu.Unlock()
		if plan.Kind == Hold {
			select {
			case <-a.release:
			case <-ctx.Done():
				c.mu.Lock()
				c.localClosed = true // the dialer closes the socket it was building
				c.closeAt = n.Since()
				c.closeSeq = n.NextSeq()
				c.mu.Unlock()
				return finish(nil, &net.OpError{Op: "dial", Net: "tcp", Err: ctx.Err()})
			}
		}
		if plan.SpinUs > 0 {
			Spin(plan.SpinUs)
		}
		if plan.Delay > 0 {
			// the TCP handshake has completed (the remote sees the
			// connection); the dialer returns it a little later, whatever
			// happens to the context meanwhile - as net.Dialer does when the
			// cancellation loses the race with connect completion.
			time.Sleep(plan.Delay)
		}
		return finish(c, nil)
	}
	return finish(nil, errors.New("memnet: bad plan"))
}

// Release completes every pending Hold dial to the remote and returns the
// connections handed over (the connection object exists from the moment of
// the dial; use PendingConn to reach it earlier).
func (n *Net) Release(remote netip.Addr) []*Conn {
	n.mu.Lock()
	defer n.mu.Unlock()
	var out []*Conn
	for _, a := range n.dials {
		if a.Remote == remote && a.Plan.Kind == Hold && !a.Done && a.release != nil {
			select {
			case <-a.release:
			default:
				close(a.release)
				if a.Conn != nil { // nil: the attempt is registered, its socket not built yet
					out = append(out, a.Conn)
				}
			}
		}
	}
	return out
}

// PendingConn returns the connection of the latest unfinished Hold dial to
// the remote (nil if none).
func (n *Net) PendingConn(remote netip.Addr) *Conn {
	n.mu.Lock()
	defer n.mu.Unlock()
	for i := len(n.dials) - 1; i >= 0; i-- {
		a := n.dials[i]
		if a.Remote == remote && a.Plan.Kind == Hold && !a.Done {
			return a.Conn
		}
	}
	return nil
}
