#!/bin/bash
# harvest.sh <worktree> <seed-id> <prop> [prop...]
# Confirms a sub-agent's seeded change (suite passes, demo fails with / passes without), stores it under
# /verif/seeded/<seed-id>/ and runs the named quick checks against it (VERIF_REPO=<worktree>).
set -u
WT="$1"; ID="$2"; shift 2
export GOFLAGS=-mod=mod GOPROXY=off GOSUMDB=off
OUT=/verif/seeded/$ID; mkdir -p "$OUT"
cd "$WT" || exit 3
git diff > "$OUT/patch.diff"
DEMO=$(ls zz_seed_demo*_test.go 2>/dev/null | head -1)
[ -n "$DEMO" ] && cp $DEMO "$OUT/"
echo "--- patch: $(grep -c '^[+-][^+-]' $OUT/patch.diff) changed lines; demo: $DEMO"
echo "--- build + existing suite WITH change (demo skipped):"
go build ./... && go build -tags verif ./... && go test -vet=off -count=1 -skip 'TestSeed' ./... 2>&1 | tail -2
echo "--- demo WITH change (expect FAIL):"
timeout 300 go test -vet=off -count=1 -run 'TestSeed' . 2>&1 | tail -3
echo "--- demo WITHOUT change (expect PASS):"
# (git stash is shared between worktrees of one repository: never use it here)
git apply -R "$OUT/patch.diff" && timeout 300 go test -vet=off -count=1 -run 'TestSeed' . 2>&1 | tail -2; git apply "$OUT/patch.diff"
for P in "$@"; do
  echo "--- my check $P (quick) against the change:"
  ( cd /verif && VERIF_REPO="$WT" ./check "$P" --tier quick 2>&1 | grep -v '^KNOWN-FINDING' | grep -E "VIOLATION|INCONCL|quick:|BUILD" | head -4 )
done
