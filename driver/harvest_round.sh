#!/bin/bash
# harvest_round.sh <suffix> [extra-prop-map-file]  - harvest every /tmp/seed/C??<suffix> worktree against the quick check of its
# own property; prints one compact block per seed. Extra properties per seed: lines "C05k C13 C10" in the map file.
SFX="$1"; MAP="${2:-/dev/null}"
cd /verif
for wt in /tmp/seed/C??$SFX; do
  [ -d "$wt" ] || continue
  id=$(basename $wt); prop=${id:0:3}
  extra=$(grep "^$id " "$MAP" 2>/dev/null | cut -d' ' -f2-)
  out=$(driver/harvest.sh $wt $id $prop $extra 2>&1)
  suite=$(echo "$out" | sed -n '/existing suite WITH change/,/demo WITH change/p' | grep -c '^ok')
  with=$(echo "$out" | sed -n '/demo WITH change/,/demo WITHOUT change/p' | grep -c '^FAIL')
  without=$(echo "$out" | sed -n '/demo WITHOUT change/,/my check/p' | grep -c '^ok')
  echo "=== $id suite_ok=$suite demo_fails_with=$with demo_passes_without=$without"
  echo "$out" | grep -E "^--- my check|VIOLATION-DETAIL|quick:" | cut -c1-260
done
