#!/bin/bash
# runmuts.sh name:Cxx ...   run quick checks against /tmp/muts/<name>.diff
for m in "$@"; do n=${m%%:*}; p=${m##*:}; echo "== $n $p"; /verif/driver/try_patch.sh /tmp/muts/$n.diff $p 2>&1 | grep -E "VIOLATION|evaluations|INCONCL|FAIL|ok |APPLY" | head -4; done
