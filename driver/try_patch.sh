#!/bin/bash
# usage: try_patch.sh <patch.diff|@commit> <Cxx> [tier]   -- run a check against a scratch worktree of /repo with a patch applied
set -u
PATCH="$1"; PROP="$2"; TIER="${3:-quick}"
WT=$(mktemp -d /tmp/mw-XXXXXX)
rmdir "$WT"
if [[ "$PATCH" == @* ]]; then
  git -C /repo worktree add -q --detach "$WT" "${PATCH#@}" || exit 3
else
  git -C /repo worktree add -q --detach "$WT" HEAD || exit 3
  git -C "$WT" apply "$PATCH" || { git -C /repo worktree remove --force "$WT"; echo "PATCH DOES NOT APPLY"; exit 3; }
fi
( cd "$WT" && go build ./... && go vet -tags verif . >/dev/null 2>&1; go test -vet=off -count=1 . 2>&1 | tail -1 )
( cd /verif && VERIF_REPO="$WT" ./check "$PROP" --tier "$TIER" 2>&1 | grep -v '^KNOWN-FINDING' | tail -14 )
rc=$?
git -C /repo worktree remove --force "$WT"
git -C /repo worktree prune
