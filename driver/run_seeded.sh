#!/bin/bash
# run_seeded.sh [id...]  - apply each /verif/seeded/<id>/patch.diff to a scratch worktree of /repo HEAD and run the
# quick check of the property it breaks; prints CAUGHT / MISSED per seed. (Detection regression suite; never touches /repo.)
cd /verif
ids="$@"; [ -z "$ids" ] && ids=$(ls seeded)
for id in $ids; do
  prop=$(python3 -c "import json;m=json.load(open('seeded/$id/meta.json'));print(m.get('detect_with') or m['property'])")
  out=$(driver/try_patch.sh /verif/seeded/$id/patch.diff $prop quick 2>&1)
  tol=$(python3 -c "import json;print(json.load(open('seeded/$id/meta.json')).get('tolerated',False))")
  gap=$(python3 -c "import json;print(json.load(open('seeded/$id/meta.json')).get('open_gap',False))")
  if echo "$out" | grep -q "^VIOLATION property=$prop"; then echo "$id $prop CAUGHT"; elif [ "$tol" = "True" ]; then echo "$id $prop TOLERATED-BY-DESIGN"; elif [ "$gap" = "True" ]; then echo "$id $prop NOT-REPORTED (known gap, DESIGN section 8)"; else echo "$id $prop MISSED"; echo "$out" | tail -3; fi
done
