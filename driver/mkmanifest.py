#!/usr/bin/env python3
"""Regenerate /verif/MANIFEST.json from driver/config.py (run after editing config)."""
import json, os, subprocess, sys
HERE = os.path.dirname(os.path.abspath(__file__))
VERIF = os.path.dirname(HERE)
sys.path.insert(0, HERE)
from config import PROPS, NOT_APPLICABLE, ENGINES  # noqa

props = [json.loads(l) for l in open(os.path.join(VERIF, "properties.jsonl"))]
hooks = subprocess.run(["git", "-C", "/repo", "log", "--format=%H %s"], capture_output=True, text=True).stdout.splitlines()
hook_commits = [l.split()[0] for l in hooks if l.split(" ", 1)[1].startswith("verif hooks:")]
checks = []
for p in props:
    pid = p["id"]
    if pid not in PROPS:
        continue
    c = PROPS[pid]
    e = {
        "property_id": pid,
        "quick_cmd": "./check %s --tier quick" % pid,
        "thorough_cmd": "./check %s --tier thorough" % pid,
        "evidence_file": "/verif/evidence/%s.json" % pid,
        "replay_cmd_template": "./check %s --replay {path}" % pid,
        "engine": c.get("engine", "sim"),
        "level_claimed": {"category": "exploration", "text": c["level_text"], "design_ref": c.get("design_ref", "DESIGN.md section 4, " + pid)},
        "level_note": c["level_note"],
        "technique": c["technique"],
    }
    if c.get("tcp"):
        e["technique"] += ("; plus a rapid-generated sub-check on the real-loopback engine (real TCP sockets and net.Dialer, real time, "
                           "the repository's own timer-channel semantics), with one-sided load-robust oracles")
    checks.append(e)
na = [{"property_id": p["id"], "reason": NOT_APPLICABLE.get(p["id"], "check not built yet (work in progress; see DESIGN.md section 4)")}
      for p in props if p["id"] not in PROPS]
for eng in ENGINES:
    eng["serves_properties"] = [c["property_id"] for c in checks if eng["name"] == "sim" or PROPS[c["property_id"]].get("tcp")]
m = {
    "version": 1,
    "setup_cmd": "./check --setup",
    "hooks": {
        "guard": "verif",
        "enable": "harness module /verif/sim (go 1.26.8) replaces github.com/jwhited/corebgp => /repo and builds with -tags verif",
        "baseline_off_cmd": "cd /repo && go test -json -vet=off -count=1 -timeout 25m ./...",
        "source_commits": hook_commits,
        "add_only": True,
    },
    "engines": ENGINES,
    "checks": checks,
    "not_applicable": na,
    "notes": "All checks are generated-input search (rapid v1.3.0 generators + shrinking, bounded exhaustive enumeration of finite sub-spaces, "
             "native go fuzzing in the thorough tier) against explicit oracles; see DESIGN.md. Exit 2 = inconclusive (never a violation).",
}
json.dump(m, open(os.path.join(VERIF, "MANIFEST.json"), "w"), indent=1)
print("checks:", len(checks), "not_applicable:", len(na))
