#!/usr/bin/env python3
"""mkmut.py <name> <file-in-repo> <old> <new>  -> writes /tmp/muts/<name>.diff (repo left untouched)"""
import subprocess, sys, os
name, f, old, new = sys.argv[1:5]
p = os.path.join('/repo', f)
orig = open(p).read()
assert orig.count(old) >= 1, "pattern not found in %s: %r" % (f, old)
open(p, 'w').write(orig.replace(old, new, 1))
try:
    d = subprocess.run(['git', '-C', '/repo', 'diff'], capture_output=True, text=True).stdout
    os.makedirs('/tmp/muts', exist_ok=True)
    open('/tmp/muts/%s.diff' % name, 'w').write(d)
finally:
    open(p, 'w').write(orig)
print(name, 'ok', len(d.splitlines()), 'lines')
